// throw-away: investigate the C12 replay (altered byte in a checksummed page, Ok(true), savepoint gone)
use redb::*;
use vcore::backend::RecBackend;
use vcore::decoder::*;
use vcore::hist::*;
use vcore::tape::Tape;
fn main() {
    let path = std::env::args().nth(1).unwrap();
    let v: serde_json::Value = serde_json::from_str(&std::fs::read_to_string(path).unwrap()).unwrap();
    let tape = Tape::from_hex(v["tape"].as_str().unwrap()).unwrap();
    let off: usize = std::env::args().nth(2).unwrap().parse().unwrap();
    let mask: u8 = std::env::args().nth(3).unwrap().parse().unwrap();
    let cfg = decode_cfg(&tape);
    let mut p = Profile::base();
    // same profile as c12
    p.w_commit = 30; p.w_begin = 12; p.nondurable = 40; p.w_sp_pers = 5; p.w_sp_eph = 0; p.w_restore = 2; p.w_del_pers = 2; p.w_delete_table = 3; p.w_reopen = 2; p.w_compact = 1; p.w_check = 0; p.w_begin_read = 0; p.w_reader_probe = 0; p.w_take_owned = 0; p.w_owned_step = 0; p.w_hold = 0; p.mismatch = 0; p.key_universe = 48; p.verify_each_commit = false;
    let mut m = Machine::new(cfg.clone(), p, false, false).map_err(|_| "new").unwrap();
    m.run_tape(&tape).map_err(|_| "run").unwrap();
    m.drop_all_handles();
    let db = m.db.take(); drop(db);
    let img = m.backend.image();
    let src = ImageSource::new(&img).unwrap();
    let h = &src.header;
    let slot = &h.slots[h.primary];
    let forest = decode_forest(&src, slot.user_root, slot.system_root, true).unwrap();
    println!("page size {} primary {} savepoints {:?}", h.page_size, h.primary, forest.savepoints.keys().collect::<Vec<_>>());
    for (k, cov) in &forest.covered {
        let (s, e) = h.page_range(*k);
        if (s as usize) <= off && off < e as usize {
            println!("offset {off} lies in page {k:?} range {s}..{e} covered {cov} (offset in page {}), data page: {} system page: {}", off - s as usize, forest.data_pages.contains(k), forest.system_pages.contains(k));
        }
    }
    for (n, t) in &forest.system { println!("system table {n:?}: pages {:?}", t.pages.iter().take(6).collect::<Vec<_>>()); }
    let mut alt = img.clone();
    alt[off] ^= mask;
    let b = RecBackend::from_image(alt, false);
    let mut db = cfg.builder().create_with_backend(b).unwrap();
    println!("check_integrity: {:?}", db.check_integrity());
    let w = db.begin_write().unwrap();
    println!("list_persistent_savepoints: {:?}", w.list_persistent_savepoints().map(|i| i.collect::<Vec<_>>()));
    println!("get_persistent_savepoint(1): {:?}", w.get_persistent_savepoint(1).map(|_| "ok"));
    w.abort().unwrap();
    // unaltered for comparison
    let b = RecBackend::from_image(img, false);
    let db = cfg.builder().create_with_backend(b).unwrap();
    let w = db.begin_write().unwrap();
    println!("unaltered list_persistent_savepoints: {:?}", w.list_persistent_savepoints().map(|i| i.collect::<Vec<_>>()));
}
