use redb::*;
use vcore::backend::RecBackend;
const T: TableDefinition<u64, u64> = TableDefinition::new("t0");
fn main() {
    let b = RecBackend::new(false);
    let mut bld = Builder::new();
    bld.verif_set_page_size(512); bld.verif_set_region_size(65536);
    let db = bld.create_with_backend(b.clone()).unwrap();
    let w = db.begin_write().unwrap();
    { let mut t = w.open_table(T).unwrap(); for i in 0..100 { t.insert(i, i).unwrap(); } }
    w.commit().unwrap();
    let s = db.verif_snapshot();
    println!("regions {} first allocated {:?} data_root {:?} sys {:?}", s.regions.len(), s.regions.iter().map(|r| r.allocated.len()).collect::<Vec<_>>(), s.data_root, s.system_root);
    let p = db.verif_peek_page(s.data_root.unwrap().page).unwrap();
    println!("root page type {} len {}", p[0], p.len());
    let m = redb::verif::Mem::new(512, 65536).unwrap();
    let a = m.allocate(512, false).unwrap(); let b2 = m.allocate(2000, true).unwrap();
    println!("{a:?} {b2:?} regions {}", m.snapshot().regions.len());
    m.free(a);
}
