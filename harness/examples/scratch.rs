use redb::*;
use std::sync::{Arc, Mutex, Condvar};
use std::sync::atomic::{AtomicBool, Ordering};
const T: TableDefinition<u64, &[u8]> = TableDefinition::new("x");
thread_local! { static IS_READER: std::cell::Cell<bool> = const { std::cell::Cell::new(false) }; }
fn main() {
    let gate = Arc::new((Mutex::new((false /*reader parked*/, false /*release*/)), Condvar::new()));
    let g2 = gate.clone();
    redb::verif_sched::set_pause_hook(Some(Arc::new(move |p| {
        if p == "read.registered" && IS_READER.with(|r| r.get()) {
            let (m, cv) = &*g2;
            let mut g = m.lock().unwrap();
            g.0 = true; cv.notify_all();
            while !g.1 { g = cv.wait(g).unwrap(); }
        }
    })));
    let mut b = Builder::new();
    b.verif_set_page_size(512); b.verif_set_region_size(65536); b.set_cache_size(0);
    let db = Arc::new(b.create_with_backend(backends::InMemoryBackend::new()).unwrap());
    let write = |k: u64, nd: bool| {
        let mut w = db.begin_write().unwrap();
        if nd { w.set_durability(Durability::None).unwrap(); }
        { let mut t = w.open_table(T).unwrap(); for i in 0..40u64 { t.insert(i, vec![(k as u8).wrapping_add(i as u8); 300].as_slice()).unwrap(); } }
        w.commit().unwrap();
    };
    write(1, false); // durable D
    let db2 = db.clone();
    let corrupted = Arc::new(AtomicBool::new(false));
    let c2 = corrupted.clone();
    let g3 = gate.clone();
    let reader = std::thread::spawn(move || {
        IS_READER.with(|r| r.set(true));
        let rt = db2.begin_read().unwrap();     // parks between registration and root read
        let t = rt.open_table(T).unwrap();
        let snap: Vec<Vec<u8>> = t.iter().unwrap().map(|e| e.unwrap().1.value().to_vec()).collect();
        // tell main to continue with one more non-durable commit, then re-read
        { let (m, cv) = &*g3; let mut g = m.lock().unwrap(); g.0 = false; g.1 = false; cv.notify_all(); while !g.1 { g = cv.wait(g).unwrap(); } }
        let r = std::panic::catch_unwind(std::panic::AssertUnwindSafe(|| {
            let again: Vec<Vec<u8>> = t.iter().unwrap().map(|e| e.unwrap().1.value().to_vec()).collect();
            again
        }));
        match r {
            Ok(again) => { if again != snap { c2.store(true, Ordering::SeqCst); println!("reader: snapshot CHANGED under a live read transaction ({} rows before, {} after; first row byte {} -> {})", snap.len(), again.len(), snap[0][0], again.get(0).map(|v| v[0]).unwrap_or(0)); } else { println!("reader: snapshot stable, first byte {}", snap[0][0]); } }
            Err(_) => { c2.store(true, Ordering::SeqCst); println!("reader: PANIC while re-reading its snapshot"); }
        }
    });
    { let (m, cv) = &*gate; let mut g = m.lock().unwrap(); while !g.0 { g = cv.wait(g).unwrap(); } }
    // reader is registered (at the durable commit) but has not read the root yet
    write(2, true); write(3, true);
    { let (m, cv) = &*gate; let mut g = m.lock().unwrap(); g.1 = true; cv.notify_all(); while g.1 { g = cv.wait(g).unwrap(); } }
    // reader has now read the root of commit 3; two more non-durable commits reclaim and reuse pages
    let r = std::panic::catch_unwind(std::panic::AssertUnwindSafe(|| { write(4, true); write(5, true); write(6, true); }));
    if r.is_err() { println!("writer: PANIC (debug assertion: freeing a page a reader still references)"); }
    { let (m, cv) = &*gate; let mut g = m.lock().unwrap(); g.1 = true; cv.notify_all(); }
    reader.join().unwrap();
    println!("corrupted={}", corrupted.load(Ordering::SeqCst));
}
