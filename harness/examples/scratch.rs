use std::sync::{Arc, Mutex};
#[derive(Debug, Clone)]
struct Shared3(Arc<Mutex<Vec<u8>>>);
impl redb3::StorageBackend for Shared3 {
    fn len(&self) -> Result<u64, std::io::Error> { Ok(self.0.lock().unwrap().len() as u64) }
    fn read(&self, offset: u64, out: &mut [u8]) -> Result<(), std::io::Error> { let g = self.0.lock().unwrap(); out.copy_from_slice(&g[offset as usize..offset as usize + out.len()]); Ok(()) }
    fn set_len(&self, len: u64) -> Result<(), std::io::Error> { self.0.lock().unwrap().resize(len as usize, 0); Ok(()) }
    fn sync_data(&self) -> Result<(), std::io::Error> { Ok(()) }
    fn write(&self, offset: u64, data: &[u8]) -> Result<(), std::io::Error> { let mut g = self.0.lock().unwrap(); g[offset as usize..offset as usize + data.len()].copy_from_slice(data); Ok(()) }
}
impl redb::StorageBackend for Shared3 {
    fn len(&self) -> Result<u64, std::io::Error> { Ok(self.0.lock().unwrap().len() as u64) }
    fn read(&self, offset: u64, out: &mut [u8]) -> Result<(), std::io::Error> { let g = self.0.lock().unwrap(); out.copy_from_slice(&g[offset as usize..offset as usize + out.len()]); Ok(()) }
    fn set_len(&self, len: u64) -> Result<(), std::io::Error> { self.0.lock().unwrap().resize(len as usize, 0); Ok(()) }
    fn sync_data(&self) -> Result<(), std::io::Error> { Ok(()) }
    fn write(&self, offset: u64, data: &[u8]) -> Result<(), std::io::Error> { let mut g = self.0.lock().unwrap(); g[offset as usize..offset as usize + data.len()].copy_from_slice(data); Ok(()) }
}
fn main() {
    for (n, del, reopen_twice) in [(0usize,false,false),(1,false,false),(1,false,true),(50,false,true),(300,false,true),(300,true,true),(2000,false,true),(2000,true,true)] {
        let b = Shared3(Arc::new(Mutex::new(vec![])));
        let db = redb::Database::builder().create_with_backend(b.clone()).unwrap();
        let d: redb::TableDefinition<u64,&[u8]> = redb::TableDefinition::new("t0");
        if n > 0 {
            let w = db.begin_write().unwrap();
            { let mut t = w.open_table(d).unwrap(); for i in 0..n as u64 { t.insert(i, vec![7u8; 1000].as_slice()).unwrap(); } }
            w.commit().unwrap();
            if del {
                let w = db.begin_write().unwrap();
                { let mut t = w.open_table(d).unwrap(); t.retain(|_,_| false).unwrap(); }
                w.commit().unwrap();
            }
        }
        drop(db);
        let l1 = b.0.lock().unwrap().len();
        if reopen_twice { let db = redb::Database::builder().create_with_backend(b.clone()).unwrap(); drop(db); }
        let l2 = b.0.lock().unwrap().len();
        let mut db = redb3::Database::builder().create_with_backend(b.clone()).unwrap();
        let r = db.check_integrity();
        println!("n={n} del={del} reopen={reopen_twice}: len {l1} -> {l2} pages {}: old check_integrity {:?}", l2/4096, r);
    }
}
