// throw-away: investigate the C12 thorough replay (slot flag flipped + aborted repair => Ok(true), no tables)
use redb::*;
use vcore::backend::RecBackend;
use vcore::decoder::*;
use vcore::hist::*;
use vcore::tape::Tape;
fn show(tag: &str, img: &[u8]) {
    let src = ImageSource::new(img).unwrap();
    let h = &src.header;
    println!("{tag}: len {} god byte {:#04x} primary {} recovery_required {} ", img.len(), img[9], h.primary, h.recovery_required);
    for (i, s) in h.slots.iter().enumerate() {
        println!("   slot {i}: checksum_ok {} txn {} user_root {:?} system_root {:?} flagbytes {:?}", s.checksum_ok, s.transaction_id, s.user_root.map(|r| r.page), s.system_root.map(|r| r.page), &img[64 + i * 128..64 + i * 128 + 4]);
    }
}
fn main() {
    let path = std::env::args().nth(1).unwrap();
    let v: serde_json::Value = serde_json::from_str(&std::fs::read_to_string(path).unwrap()).unwrap();
    let tape = Tape::from_hex(v["tape"].as_str().unwrap()).unwrap();
    let cfg = decode_cfg(&tape);
    let mut p = Profile::base();
    p.w_commit = 30; p.w_begin = 12; p.nondurable = 40; p.w_sp_pers = 5; p.w_sp_eph = 0; p.w_restore = 2; p.w_del_pers = 2; p.w_delete_table = 3; p.w_reopen = 2; p.w_compact = 1; p.w_check = 0; p.w_begin_read = 0; p.w_reader_probe = 0; p.w_take_owned = 0; p.w_owned_step = 0; p.w_hold = 0; p.mismatch = 0; p.key_universe = 48; p.verify_each_commit = false;
    let mut m = Machine::new(cfg.clone(), p, false, false).map_err(|_| "new").unwrap();
    m.run_tape(&tape).map_err(|_| "run").unwrap();
    m.drop_all_handles();
    let img = m.backend.image(); // unclean: database still open
    show("crash image", &img);
    let mut alt = img.clone();
    alt[65] ^= 1;
    show("altered", &alt);
    // interrupted open
    let b = RecBackend::from_image(alt.clone(), true);
    let mut builder = cfg.builder();
    builder.set_repair_callback(|s| s.abort());
    let r = builder.create_with_backend(b.clone());
    println!("first open: {:?}", r.as_ref().map(|_| "ok").map_err(|e| format!("{e:?}")));
    drop(r);
    let after = b.image();
    show("after aborted repair", &after);
    {
        let g = b.lock();
        for op in g.log.iter() {
            match op { vcore::backend::LogOp::Write { off, data } => println!("   write off {off} len {}", data.len()), vcore::backend::LogOp::Read => {}, o => println!("   {:?}", std::mem::discriminant(o)) }
        }
    }
    let b2 = RecBackend::from_image(after, false);
    let mut db = cfg.builder().create_with_backend(b2.clone()).unwrap();
    println!("check_integrity: {:?}", db.check_integrity());
    let rt = db.begin_read().unwrap();
    println!("tables: {:?} multimaps: {:?}", rt.list_tables().unwrap().map(|h| h.name().to_string()).collect::<Vec<_>>(), rt.list_multimap_tables().unwrap().map(|h| h.name().to_string()).collect::<Vec<_>>());
    drop(rt);
    { let w = db.begin_write().unwrap(); println!("psp: {:?}", w.list_persistent_savepoints().unwrap().collect::<Vec<_>>()); w.abort().unwrap(); }
    for (j, c) in m.commits.iter().enumerate() { println!("  model S{j}: tables {:?} psp {:?}", c.tables.keys().collect::<Vec<_>>(), c.psp.keys().collect::<Vec<_>>()); }
    drop(db);
    show("after second open+check+close", &b2.image());
    // without the interrupted open
    let b3 = RecBackend::from_image(alt, false);
    let mut db = cfg.builder().create_with_backend(b3).unwrap();
    println!("direct: check_integrity: {:?}", db.check_integrity());
    let rt = db.begin_read().unwrap();
    println!("direct: tables: {:?}", rt.list_tables().unwrap().map(|h| h.name().to_string()).collect::<Vec<_>>());
}
