use redb::*;
use vcore::backend::RecBackend;
const T: TableDefinition<u64, u64> = TableDefinition::new("t0");
fn main() {
    for with_data in [false, true] {
        let b = RecBackend::new(false);
        let bld = Builder::new();
        let db = bld.create_with_backend(b.clone()).unwrap();
        if with_data {
            let w = db.begin_write().unwrap();
            { let mut t = w.open_table(T).unwrap(); for i in 0..100 { t.insert(i, i).unwrap(); } }
            w.commit().unwrap();
        }
        drop(db);
        let l0 = b.lock().live.len();
        let mut db = bld.create_with_backend(b.reopen_handle()).unwrap();
        let r = db.compact();
        let l1 = b.lock().live.len();
        drop(db);
        let l2 = b.lock().live.len();
        let mut db = bld.create_with_backend(b.reopen_handle()).unwrap();
        let r2 = db.compact();
        drop(db);
        let l3 = b.lock().live.len();
        println!("default builder with_data={with_data}: at rest {l0}; compact -> {r:?}; in flight {l1}; at rest {l2}; second compact {r2:?} at rest {l3}");
    }
}
