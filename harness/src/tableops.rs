//! Generic single-table operation interpreter with a `BTreeMap` model (C04; reused by hist).

use crate::driver::Failure;
use crate::genr::{self, DbCfg};
use crate::mv::{KeyFam, MV, Ty, ValFam};
use crate::tape::{Fnv, Rec};
use redb::{ReadableTable, Table, Value};
use std::collections::{BTreeMap, VecDeque};
use std::ops::Bound;

pub type TModel = BTreeMap<MV, MV>;

/// Why an interpreter step stopped
#[derive(Debug)]
pub enum Stop {
    /// oracle violation
    Fail(Failure),
    /// redb returned a storage error (only expected under fault injection)
    Io(String),
}

impl From<Failure> for Stop {
    fn from(f: Failure) -> Self {
        Stop::Fail(f)
    }
}

pub type R<T = ()> = Result<T, Stop>;

#[macro_export]
macro_rules! io {
    ($e:expr) => {
        match $e {
            Ok(v) => v,
            Err(e) => return Err($crate::tableops::Stop::Io(format!("{e:?}"))),
        }
    };
}

#[macro_export]
macro_rules! sfail {
    ($sig:expr, $($arg:tt)*) => {
        return Err($crate::tableops::Stop::Fail($crate::driver::Failure::new($sig, format!($($arg)*))))
    };
}

#[macro_export]
macro_rules! sensure {
    ($cond:expr, $sig:expr, $($arg:tt)*) => {
        if !($cond) {
            return Err($crate::tableops::Stop::Fail($crate::driver::Failure::new($sig, format!($($arg)*))));
        }
    };
}

pub fn stop_to_failure(s: Stop) -> Failure {
    match s {
        Stop::Fail(f) => f,
        Stop::Io(e) => Failure::new(
            "unexpected-storage-error",
            format!("redb returned a storage error without any injected fault: {e}"),
        ),
    }
}

/// How an iterator is consumed: bit i of `pat` = take from the back at step i; at most `limit`
/// steps; then `finish`: drain the rest (true) or abandon it (false)
#[derive(Clone, Debug)]
pub struct Consume {
    pub pat: u16,
    pub limit: usize,
    pub finish: bool,
}

impl Consume {
    pub fn decode(r: &mut Rec) -> Consume {
        let mode = r.u8();
        let pat = match mode % 4 {
            0 => 0,
            1 => 0xffff,
            2 => 0xaaaa,
            _ => r.u16(),
        };
        let limit = match (mode >> 2) % 4 {
            0 => usize::MAX,
            1 => 1,
            2 => 3,
            _ => 9,
        };
        Consume {
            pat,
            limit,
            finish: (mode >> 4) % 2 == 0,
        }
    }
    pub fn full() -> Consume {
        Consume {
            pat: 0,
            limit: usize::MAX,
            finish: true,
        }
    }
    fn back(&self, step: usize) -> bool {
        (self.pat >> (step % 16)) & 1 == 1
    }
}

#[derive(Clone, Debug)]
pub enum TOp {
    Insert { k: MV, v: MV },
    InsertReserve { k: MV, v: MV },
    Get { k: MV },
    /// get_mut, then the guard's insert() once per value (several replacements through ONE guard)
    GetMut { k: MV, vs: Vec<MV> },
    EntryOrInsert { k: MV, v: MV, then: Vec<MV> },
    EntryAndModify { k: MV, v: MV, more: Vec<MV>, then_or_insert: Option<MV> },
    EntryOccupied { k: MV, action: u8, v: MV, more: Vec<MV> },
    Remove { k: MV },
    PopFirst,
    PopLast,
    Range { lo: Bound<MV>, hi: Bound<MV>, c: Consume },
    First,
    Last,
    Len,
    Retain { salt: u64, keep: u8, range: Option<(Bound<MV>, Bound<MV>)>, panic_at: Option<u32> },
    Extract { salt: u64, take: u8, range: Option<(Bound<MV>, Bound<MV>)>, c: Consume, panic_at: Option<u32> },
    Scan,
}

impl TOp {
    pub fn mutates(&self) -> bool {
        !matches!(
            self,
            TOp::Get { .. } | TOp::Range { .. } | TOp::First | TOp::Last | TOp::Len | TOp::Scan
        )
    }
}

fn dec_bound(r: &mut Rec, kty: Ty, universe: usize, page: usize) -> Bound<MV> {
    let kind = r.u8() % 3;
    let k = genr::rec_key(r, kty, universe, page);
    match kind {
        0 => Bound::Unbounded,
        1 => Bound::Included(k),
        _ => Bound::Excluded(k),
    }
}

/// Weighted decoding of one table operation
pub fn decode_top(r: &mut Rec, kty: Ty, vty: Ty, cfg: &DbCfg, universe: usize, tag: u64, allow_panic: bool) -> TOp {
    const W: [u32; 17] = [40, 6, 10, 6, 5, 5, 5, 18, 3, 3, 8, 2, 2, 2, 4, 5, 2];
    let page = cfg.page_size;
    let maxlen = cfg.max_value_len();
    let kind = r.weighted(&W);
    let mkval = |r: &mut Rec| {
        let cls = r.u8();
        let d = r.u8();
        genr::val_of(vty, tag, cls, d, page, maxlen)
    };
    // 0-2 further values for the same guard, each larger than a page more often than not, so that
    // consecutive replacements through one guard each have to rebuild the leaf
    let escalate = |sel: u8| -> Vec<MV> {
        let big = [236u8, 246, 253, 200, 120, 246];
        match sel % 8 {
            0..=3 => vec![],
            4 | 5 => vec![genr::val_of(vty, tag ^ 0xa1, big[(sel / 8 % 6) as usize], sel % 17, page, maxlen)],
            _ => vec![genr::val_of(vty, tag ^ 0xa1, big[(sel / 8 % 6) as usize], sel % 17, page, maxlen), genr::val_of(vty, tag ^ 0xa2, big[((sel / 8 + 1) % 6) as usize], sel % 13, page, maxlen)],
        }
    };
    match kind {
        0 => {
            let k = genr::rec_key(r, kty, universe, page);
            let v = mkval(r);
            TOp::Insert { k, v }
        }
        1 => {
            let k = genr::rec_key(r, kty, universe, page);
            let v = mkval(r);
            if vty == Ty::Bytes {
                TOp::InsertReserve { k, v }
            } else {
                TOp::Insert { k, v }
            }
        }
        2 => TOp::Get { k: genr::rec_key(r, kty, universe, page) },
        3 => {
            let k = genr::rec_key(r, kty, universe, page);
            let has = r.bool();
            let v = mkval(r);
            let mut vs = vec![];
            if has {
                vs.push(v);
                vs.extend(escalate(r.u8()));
            }
            TOp::GetMut { k, vs }
        }
        4 => {
            let k = genr::rec_key(r, kty, universe, page);
            let v = mkval(r);
            let then = escalate(r.u8());
            TOp::EntryOrInsert { k, v, then }
        }
        5 => {
            let k = genr::rec_key(r, kty, universe, page);
            let v = mkval(r);
            let t = r.bool();
            let v2 = genr::val_of(vty, tag ^ 0x5555, r.u8(), 0, page, maxlen);
            let more = escalate(r.u8());
            TOp::EntryAndModify { k, v, more, then_or_insert: t.then_some(v2) }
        }
        6 => {
            let k = genr::rec_key(r, kty, universe, page);
            let action = r.u8() % 4;
            let v = mkval(r);
            let more = escalate(r.u8());
            TOp::EntryOccupied { k, action, v, more }
        }
        7 => TOp::Remove { k: genr::rec_key(r, kty, universe, page) },
        8 => TOp::PopFirst,
        9 => TOp::PopLast,
        10 => {
            let lo = dec_bound(r, kty, universe, page);
            let hi = dec_bound(r, kty, universe, page);
            let c = Consume::decode(r);
            TOp::Range { lo, hi, c }
        }
        11 => TOp::First,
        12 => TOp::Last,
        13 => TOp::Len,
        14 => {
            let salt = u64::from(r.u16());
            let keep = r.u8();
            let ranged = r.bool();
            let range = ranged.then(|| (dec_bound(r, kty, universe, page), dec_bound(r, kty, universe, page)));
            let p = r.u8();
            // profiles that allow it (C05): four retain calls in ten have a predicate that panics
            // after 0-7 entries, so that poisoned transactions are a regular event
            let panic_at = (allow_panic && p >= 150).then(|| u32::from(p - 150) % 8);
            TOp::Retain { salt, keep, range, panic_at }
        }
        15 => {
            let salt = u64::from(r.u16());
            let take = r.u8();
            let ranged = r.bool();
            let range = ranged.then(|| (dec_bound(r, kty, universe, page), dec_bound(r, kty, universe, page)));
            let c = Consume::decode(r);
            TOp::Extract { salt, take, range, c, panic_at: None }
        }
        _ => TOp::Scan,
    }
}

/// deterministic predicate over (key, value): true with probability ~ thr/256
pub fn pred(salt: u64, thr: u8, k: &MV, v: &MV) -> bool {
    let mut h = Fnv::new();
    h.write_u64(salt);
    k.hash_into(&mut h);
    h.write_u64(v.byte_len() as u64);
    // fold: FNV's low byte is weak for short inputs
    let x = h.finish();
    let x = (x ^ (x >> 29)).wrapping_mul(0xBF58476D1CE4E5B9);
    ((x >> 32) & 0xff) < u64::from(thr.max(16))
}

pub fn in_range(k: &MV, lo: &Bound<MV>, hi: &Bound<MV>) -> bool {
    (match lo {
        Bound::Unbounded => true,
        Bound::Included(l) => k >= l,
        Bound::Excluded(l) => k > l,
    }) && (match hi {
        Bound::Unbounded => true,
        Bound::Included(h) => k <= h,
        Bound::Excluded(h) => k < h,
    })
}

pub fn bound_ref<'a, KF: KeyFam>(b: &'a Bound<MV>) -> Bound<<KF::T as Value>::SelfType<'a>> {
    match b {
        Bound::Unbounded => Bound::Unbounded,
        Bound::Included(k) => Bound::Included(KF::to(k)),
        Bound::Excluded(k) => Bound::Excluded(KF::to(k)),
    }
}

/// Statistics gathered for the non-triviality rule
#[derive(Default, Clone, Debug)]
pub struct TStats {
    pub max_height: u32,
    pub splits: u32,
    pub merges: u32,
    pub last_leaves: u64,
    pub last_branches: u64,
    pub big_values: u32,
    pub ops: u32,
}

impl TStats {
    pub fn observe(&mut self, s: &redb::TableStats) {
        self.max_height = self.max_height.max(s.tree_height());
        let pages = s.leaf_pages() + s.branch_pages();
        let last = self.last_leaves + self.last_branches;
        if pages > last {
            self.splits += 1;
        }
        if pages < last {
            self.merges += 1;
        }
        self.last_leaves = s.leaf_pages();
        self.last_branches = s.branch_pages();
    }
}

/// Compare an iterator of (key, value) results against the expected sequence, consuming it as
/// described by a `Consume`. Evaluates to the entries that were yielded (in yield order).
macro_rules! drive {
    ($KF:ty, $VF:ty, $what:expr, $it:expr, $expected:expr, $c:expr) => {{
        let mut it = $it;
        let c: &Consume = $c;
        let what: &str = $what;
        let mut dq: VecDeque<(MV, MV)> = $expected.into();
        let mut yielded: Vec<(MV, MV)> = vec![];
        let mut step = 0usize;
        loop {
            if step >= c.limit && !c.finish {
                break;
            }
            let back = if step < c.limit { c.back(step) } else { false };
            let got = if back { it.next_back() } else { it.next() };
            let exp = if back { dq.pop_back() } else { dq.pop_front() };
            match (got, exp) {
                (None, None) => {
                    sensure!(it.next().is_none(), "iter-after-end", "{what}: next() returned an entry after exhaustion");
                    sensure!(it.next_back().is_none(), "iter-after-end", "{what}: next_back() returned an entry after exhaustion");
                    break;
                }
                (Some(Err(e)), _) => return Err(Stop::Io(format!("{e:?}"))),
                (Some(Ok((k, v))), Some((ek, ev))) => {
                    let gk = <$KF>::from(k.value());
                    let gv = <$VF>::from(v.value());
                    sensure!(gk == ek, "iter-key", "{what}: step {step} ({}) yielded key {gk:?}, model says {ek:?}", if back { "back" } else { "front" });
                    sensure!(gv == ev, "iter-value", "{what}: key {gk:?} yielded value {gv:?}, model says {ev:?}");
                    yielded.push((ek, ev));
                }
                (Some(Ok((k, _))), None) => {
                    sfail!("iter-extra", "{what}: yielded {:?} but the model range is exhausted", <$KF>::from(k.value()));
                }
                (None, Some((ek, _))) => {
                    sfail!("iter-missing", "{what}: iterator ended but the model still has {ek:?}");
                }
            }
            step += 1;
        }
        yielded
    }};
}
pub(crate) use drive;

fn model_range(m: &TModel, lo: &Bound<MV>, hi: &Bound<MV>) -> Vec<(MV, MV)> {
    m.iter()
        .filter(|(k, _)| in_range(k, lo, hi))
        .map(|(k, v)| (k.clone(), v.clone()))
        .collect()
}

/// Read-only probes usable on any `ReadableTable`
pub fn read_op<KF: KeyFam, VF: ValFam, T: ReadableTable<KF::T, VF::T>>(
    t: &T,
    m: &TModel,
    op: &TOp,
) -> R {
    match op {
        TOp::Get { k } => {
            let got = io!(t.get(KF::to(k))).map(|g| VF::from(g.value()));
            let exp = m.get(k).cloned();
            sensure!(got == exp, "get", "get({k:?}) returned {got:?}, model says {exp:?}");
        }
        TOp::Range { lo, hi, c } => {
            let it = io!(t.range((bound_ref::<KF>(lo), bound_ref::<KF>(hi))));
            let exp = model_range(m, lo, hi);
            let what = format!("range({lo:?},{hi:?})");
            let _ = drive!(KF, VF, &what, it, exp, c);
        }
        TOp::First => {
            let got = io!(t.first()).map(|(k, v)| (KF::from(k.value()), VF::from(v.value())));
            let exp = m.iter().next().map(|(k, v)| (k.clone(), v.clone()));
            sensure!(got == exp, "first", "first() returned {got:?}, model says {exp:?}");
        }
        TOp::Last => {
            let got = io!(t.last()).map(|(k, v)| (KF::from(k.value()), VF::from(v.value())));
            let exp = m.iter().next_back().map(|(k, v)| (k.clone(), v.clone()));
            sensure!(got == exp, "last", "last() returned {got:?}, model says {exp:?}");
        }
        TOp::Len => {
            let got = io!(t.len());
            sensure!(got == m.len() as u64, "len", "len() returned {got}, model says {}", m.len());
            let e = io!(t.is_empty());
            sensure!(e == m.is_empty(), "is_empty", "is_empty() returned {e}, model len {}", m.len());
        }
        TOp::Scan => full_compare::<KF, VF, T>(t, m)?,
        _ => {}
    }
    Ok(())
}

pub fn full_compare<KF: KeyFam, VF: ValFam, T: ReadableTable<KF::T, VF::T>>(t: &T, m: &TModel) -> R {
    let got = io!(t.len());
    sensure!(got == m.len() as u64, "len", "len() returned {got}, model says {}", m.len());
    let it = io!(t.iter());
    let exp: Vec<(MV, MV)> = m.iter().map(|(k, v)| (k.clone(), v.clone())).collect();
    let _ = drive!(KF, VF, "full forward scan", it, exp.clone(), &Consume::full());
    let it = io!(t.iter());
    let back = Consume { pat: 0xffff, limit: usize::MAX, finish: true };
    let _ = drive!(KF, VF, "full backward scan", it, exp, &back);
    Ok(())
}

/// Result of a mutating op that the caller may care about
#[derive(Default, Debug)]
pub struct OpOutcome {
    /// a predicate panicked inside redb; the transaction must now be poisoned
    pub poisoned: bool,
}

/// Apply one operation to the table and the model, comparing every returned value.
pub fn apply_top<KF: KeyFam, VF: ValFam>(
    t: &mut Table<'_, KF::T, VF::T>,
    m: &mut TModel,
    op: &TOp,
    st: &mut TStats,
) -> R<OpOutcome> {
    st.ops += 1;
    let mut out = OpOutcome::default();
    match op {
        TOp::Insert { k, v } => {
            if v.byte_len() > 4096 {
                st.big_values += 1;
            }
            let old = io!(t.insert(KF::to(k), VF::to(v))).map(|g| VF::from(g.value()));
            let exp = m.insert(k.clone(), v.clone());
            sensure!(old == exp, "insert-old", "insert({k:?}) returned old value {old:?}, model says {exp:?}");
        }
        TOp::InsertReserve { k, v } => {
            match VF::insert_reserve::<KF>(t, k, v) {
                Some(r) => {
                    io!(r);
                    m.insert(k.clone(), v.clone());
                }
                None => {
                    let old = io!(t.insert(KF::to(k), VF::to(v))).map(|g| VF::from(g.value()));
                    let exp = m.insert(k.clone(), v.clone());
                    sensure!(old == exp, "insert-old", "insert({k:?}) returned old value {old:?}, model says {exp:?}");
                }
            }
        }
        TOp::GetMut { k, vs } => {
            let g = io!(t.get_mut(KF::to(k)));
            match (g, m.get(k).cloned()) {
                (None, None) => {}
                (Some(mut g), Some(exp)) => {
                    let got = VF::from(g.value());
                    sensure!(got == exp, "get_mut", "get_mut({k:?}) holds {got:?}, model says {exp:?}");
                    for (n, v) in vs.iter().enumerate() {
                        io!(g.insert(VF::to(v)));
                        let got2 = VF::from(g.value());
                        sensure!(&got2 == v, "get_mut-insert", "after insert #{n} through one AccessGuardMut the guard holds {got2:?}, expected {v:?}");
                        m.insert(k.clone(), v.clone());
                    }
                }
                (g, e) => {
                    sfail!("get_mut", "get_mut({k:?}) presence {} but model presence {}", g.is_some(), e.is_some());
                }
            }
        }
        TOp::EntryOrInsert { k, v, then } => {
            let e = io!(t.entry(KF::to(k)));
            let mut g = io!(e.or_insert(VF::to(v)));
            let got = VF::from(g.value());
            let exp = m.entry(k.clone()).or_insert_with(|| v.clone()).clone();
            sensure!(got == exp, "entry-or_insert", "entry({k:?}).or_insert holds {got:?}, model says {exp:?}");
            for (n, v2) in then.iter().enumerate() {
                io!(g.insert(VF::to(v2)));
                let got2 = VF::from(g.value());
                sensure!(&got2 == v2, "entry-or_insert-insert", "after insert #{n} through the guard of or_insert it holds {got2:?}, expected {v2:?}");
                m.insert(k.clone(), v2.clone());
            }
        }
        TOp::EntryAndModify { k, v, more, then_or_insert } => {
            let e = io!(t.entry(KF::to(k)));
            let was = m.contains_key(k);
            let e = io!(e.and_modify(|g| {
                g.insert(VF::to(v))?;
                for v2 in more {
                    g.insert(VF::to(v2))?;
                }
                Ok(())
            }));
            if was {
                m.insert(k.clone(), more.last().unwrap_or(v).clone());
            }
            sensure!(matches!(e, redb::Entry::Occupied(_)) == was, "entry-kind", "entry({k:?}) occupied={} but model presence={was}", !was);
            if let Some(v2) = then_or_insert {
                let g = io!(e.or_insert(VF::to(v2)));
                let got = VF::from(g.value());
                let exp = m.entry(k.clone()).or_insert_with(|| v2.clone()).clone();
                sensure!(got == exp, "entry-and_modify", "entry({k:?}).and_modify.or_insert holds {got:?}, model says {exp:?}");
            }
        }
        TOp::EntryOccupied { k, action, v, more } => {
            let e = io!(t.entry(KF::to(k)));
            match (e, m.get(k).cloned()) {
                (redb::Entry::Occupied(mut o), Some(exp)) => {
                    let got = VF::from(io!(o.get()).value());
                    sensure!(got == exp, "entry-get", "occupied entry {k:?} holds {got:?}, model says {exp:?}");
                    match action {
                        0 => {
                            let old = VF::from(io!(o.insert(VF::to(v))).value());
                            sensure!(old == exp, "entry-insert-old", "OccupiedEntry::insert({k:?}) returned {old:?}, model says {exp:?}");
                            m.insert(k.clone(), v.clone());
                        }
                        1 => {
                            let old = VF::from(io!(o.remove()).value());
                            sensure!(old == exp, "entry-remove", "OccupiedEntry::remove({k:?}) returned {old:?}, model says {exp:?}");
                            m.remove(k);
                        }
                        2 => {
                            let (rk, rv) = io!(o.remove_entry());
                            let rk = KF::from(rk);
                            let rv = VF::from(rv.value());
                            sensure!(&rk == k && rv == exp, "entry-remove_entry", "remove_entry({k:?}) returned ({rk:?},{rv:?}), model says ({k:?},{exp:?})");
                            m.remove(k);
                        }
                        _ => {
                            let mut g = io!(o.get_mut());
                            io!(g.insert(VF::to(v)));
                            m.insert(k.clone(), v.clone());
                            for (n, v2) in more.iter().enumerate() {
                                io!(g.insert(VF::to(v2)));
                                let got2 = VF::from(g.value());
                                sensure!(&got2 == v2, "entry-get_mut-insert", "after insert #{n} through OccupiedEntry::get_mut's guard it holds {got2:?}, expected {v2:?}");
                                m.insert(k.clone(), v2.clone());
                            }
                        }
                    }
                }
                (redb::Entry::Vacant(vac), None) => {
                    if *action == 0 {
                        let g = io!(vac.insert(VF::to(v)));
                        let got = VF::from(g.value());
                        sensure!(&got == v, "entry-vacant-insert", "VacantEntry::insert({k:?}) holds {got:?}, expected {v:?}");
                        m.insert(k.clone(), v.clone());
                    } else {
                        let rk = KF::from(vac.into_key());
                        sensure!(&rk == k, "entry-into_key", "VacantEntry::into_key returned {rk:?} for {k:?}");
                    }
                }
                (e, exp) => {
                    sfail!("entry-kind", "entry({k:?}) occupied={} but model presence={}", matches!(e, redb::Entry::Occupied(_)), exp.is_some());
                }
            }
        }
        TOp::Remove { k } => {
            let old = io!(t.remove(KF::to(k))).map(|g| VF::from(g.value()));
            let exp = m.remove(k);
            sensure!(old == exp, "remove", "remove({k:?}) returned {old:?}, model says {exp:?}");
        }
        TOp::PopFirst => {
            let got = io!(t.pop_first()).map(|(k, v)| (KF::from(k.value()), VF::from(v.value())));
            let exp = m.pop_first();
            sensure!(got == exp, "pop_first", "pop_first() returned {got:?}, model says {exp:?}");
        }
        TOp::PopLast => {
            let got = io!(t.pop_last()).map(|(k, v)| (KF::from(k.value()), VF::from(v.value())));
            let exp = m.pop_last();
            sensure!(got == exp, "pop_last", "pop_last() returned {got:?}, model says {exp:?}");
        }
        TOp::Retain { salt, keep, range, panic_at } => {
            let (lo, hi) = range.clone().unwrap_or((Bound::Unbounded, Bound::Unbounded));
            let mut calls = 0u32;
            let mut seen: Vec<MV> = vec![];
            let pa = *panic_at;
            let predicate = |k: <KF::T as Value>::SelfType<'_>, v: <VF::T as Value>::SelfType<'_>| {
                if let Some(n) = pa
                    && calls == n
                {
                    panic!("verif: predicate panic");
                }
                calls += 1;
                let mk = KF::from(k);
                let r = pred(*salt, *keep, &mk, &VF::from(v));
                seen.push(mk);
                r
            };
            let res = crate::driver::catch(|| {
                if range.is_some() {
                    t.retain_in((bound_ref::<KF>(&lo), bound_ref::<KF>(&hi)), predicate)
                } else {
                    t.retain(predicate)
                }
            });
            match res {
                Err(p) => {
                    if pa.is_some() && p.contains("verif: predicate panic") {
                        out.poisoned = true;
                        return Ok(out);
                    }
                    sfail!(format!("panic:{}", crate::driver::normalize_sig(&p)), "panic inside retain: {p}");
                }
                Ok(r) => {
                    io!(r);
                }
            }
            // predicate must have been applied exactly to the in-range entries, each once
            let mut expect_seen: Vec<MV> = m.keys().filter(|k| in_range(k, &lo, &hi)).cloned().collect();
            let mut seen_sorted = seen.clone();
            seen_sorted.sort();
            expect_seen.sort();
            sensure!(seen_sorted == expect_seen, "retain-visited", "retain applied the predicate to {} entries {:?}, model has {} in range", seen_sorted.len(), &seen_sorted[..seen_sorted.len().min(4)], expect_seen.len());
            m.retain(|k, v| !in_range(k, &lo, &hi) || pred(*salt, *keep, k, v));
        }
        TOp::Extract { salt, take, range, c, panic_at: _ } => {
            let (lo, hi) = range.clone().unwrap_or((Bound::Unbounded, Bound::Unbounded));
            let exp: Vec<(MV, MV)> = m
                .iter()
                .filter(|(k, v)| in_range(k, &lo, &hi) && pred(*salt, *take, k, v))
                .map(|(k, v)| (k.clone(), v.clone()))
                .collect();
            let predicate = |k: <KF::T as Value>::SelfType<'_>, v: <VF::T as Value>::SelfType<'_>| {
                pred(*salt, *take, &KF::from(k), &VF::from(v))
            };
            let yielded = if range.is_some() {
                let it = io!(t.extract_from_if((bound_ref::<KF>(&lo), bound_ref::<KF>(&hi)), predicate));
                drive!(KF, VF, "extract_from_if", it, exp, c)
            } else {
                let it = io!(t.extract_if(predicate));
                drive!(KF, VF, "extract_if", it, exp, c)
            };
            for (k, _) in yielded {
                m.remove(&k);
            }
        }
        other => read_op::<KF, VF, _>(t, m, other)?,
    }
    Ok(out)
}

