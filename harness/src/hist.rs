//! `hist`: the history state machine and its reference model (DESIGN.md 3.2, Appendix A)

use crate::backend::RecBackend;
use crate::driver::{Failure, catch, normalize_sig};
use crate::dyntab::*;
use crate::genr::DbCfg;
use crate::mmops::decode_mop;
use crate::mv::Ty;
use crate::tableops::{R, Stop, decode_top};
use crate::tape::{Fnv, Rec, Tape};
use crate::{io, sensure, sfail};
use redb::{
    CommitError, CompactionError, Database, DatabaseError, Durability, ReadTransaction, ReadableDatabase, Savepoint,
    SavepointError, SetDurabilityError, TableError, TableHandle, MultimapTableHandle, WriteTransaction,
};
use std::collections::{BTreeMap, BTreeSet};
use std::sync::Arc;

pub const NAMES: [&str; 6] = ["t0", "m0", "t", "tab/\u{e9}", "t1", "m1"];

pub type Tables = BTreeMap<String, TableM>;

#[derive(Clone, Debug, PartialEq)]
pub struct PspM {
    pub seq: u64,
    pub captured: Arc<Tables>,
}

/// One commit point: catalog + contents + persistent savepoints
#[derive(Clone, Debug, Default, PartialEq)]
pub struct DbState {
    pub tables: Arc<Tables>,
    pub psp: BTreeMap<u64, PspM>,
}

impl DbState {
    pub fn hash(&self) -> u64 {
        let mut h = Fnv::new();
        for (n, t) in self.tables.iter() {
            h.write_str(n);
            h.write_u64(t.entries() as u64);
            h.write_str(&t.def().label());
        }
        for id in self.psp.keys() {
            h.write_u64(*id);
        }
        h.finish()
    }
}

#[derive(Clone, Copy, Debug, PartialEq, Eq)]
pub enum Dur {
    None,
    Immediate,
}

/// Operation weights and switches; every property uses its own profile over the same machine
#[derive(Clone, Debug)]
pub struct Profile {
    pub w_table_op: u32,
    pub w_commit: u32,
    pub w_abort: u32,
    pub w_begin: u32,
    pub w_sp_eph: u32,
    pub w_sp_pers: u32,
    pub w_restore: u32,
    pub w_del_pers: u32,
    pub w_drop_eph: u32,
    pub w_begin_read: u32,
    pub w_reader_probe: u32,
    pub w_take_owned: u32,
    pub w_drop_reader: u32,
    pub w_reopen: u32,
    pub w_compact: u32,
    pub w_check: u32,
    pub w_rename: u32,
    pub w_delete_table: u32,
    pub w_list: u32,
    pub w_hold: u32,
    pub w_drop_hold: u32,
    pub w_owned_step: u32,
    /// out of 256: how often a table is opened with a deliberately different definition
    pub mismatch: u32,
    /// out of 256: fraction of commits that are non-durable when the tape does not say otherwise
    pub nondurable: u32,
    /// allow panicking predicates (transaction poisoning)
    pub allow_panic: bool,
    /// one case in this many may contain bulk writes (see op_bulk)
    pub bulk_one_in: u8,
    pub max_readers: usize,
    pub key_universe: usize,
    /// verify complete committed contents after every commit / abort (else only at the end)
    pub verify_each_commit: bool,
    /// consult every live reader fully after every step
    pub probe_readers_each_step: bool,
}

impl Profile {
    pub fn base() -> Profile {
        Profile {
            w_table_op: 120,
            w_commit: 22,
            w_abort: 5,
            w_begin: 8,
            w_sp_eph: 3,
            w_sp_pers: 3,
            w_restore: 3,
            w_del_pers: 2,
            w_drop_eph: 2,
            w_begin_read: 4,
            w_reader_probe: 5,
            w_take_owned: 2,
            w_drop_reader: 3,
            w_reopen: 2,
            w_compact: 1,
            w_check: 1,
            w_rename: 2,
            w_delete_table: 2,
            w_list: 1,
            w_hold: 2,
            w_drop_hold: 2,
            w_owned_step: 2,
            mismatch: 6,
            nondurable: 80,
            allow_panic: false,
            bulk_one_in: 12,
            max_readers: 6,
            key_universe: 96,
            verify_each_commit: true,
            probe_readers_each_step: false,
        }
    }
    fn weights(&self) -> [u32; 22] {
        [
            self.w_table_op,
            self.w_commit,
            self.w_abort,
            self.w_begin,
            self.w_sp_eph,
            self.w_sp_pers,
            self.w_restore,
            self.w_del_pers,
            self.w_drop_eph,
            self.w_begin_read,
            self.w_reader_probe,
            self.w_take_owned,
            self.w_drop_reader,
            self.w_reopen,
            self.w_compact,
            self.w_check,
            self.w_rename,
            self.w_delete_table,
            self.w_list,
            self.w_hold,
            self.w_drop_hold,
            self.w_owned_step,
        ]
    }
}

pub struct SpM {
    pub seq: u64,
    pub persistent: Option<u64>,
    pub handle: Option<Savepoint>,
    pub captured: Arc<Tables>,
    /// invalidated by a committed restore of an earlier savepoint (or deleted, for persistent ones)
    pub invalid: bool,
}

pub struct ReaderM {
    pub rt: Option<ReadTransaction>,
    pub at: usize,
    pub owned: Vec<Box<dyn OwnedProbe>>,
    pub begun_step: usize,
    pub later_commits_freeing: u32,
    pub later_commits_allocating: u32,
    pub later_nondurable: u32,
    pub probes_after: u32,
}

pub struct WTxn {
    pub held: BTreeMap<String, Box<dyn DynTab>>,
    // NOTE: field order matters: `held` (borrowing the transaction) is dropped before `txn`
    pub txn: Option<Box<WriteTransaction>>,
    pub work: DbState,
    pub dirty: bool,
    pub dur: Dur,
    pub two_phase: bool,
    pub quick_repair: bool,
    pub psp_modified: bool,
    pub invalidated: BTreeSet<u64>,
    pub poisoned: bool,
    pub restored: bool,
    pub structural_ops: u32,
    pub alloc_ops: u32,
    pub freeing_ops: u32,
    pub tables_changed: BTreeSet<String>,
    pub begin_allocated_pages: Option<u64>,
}

#[derive(Default, Clone, Debug)]
pub struct HStats {
    pub commits: u32,
    pub nd_commits: u32,
    pub aborts: u32,
    pub reopens: u32,
    pub restores: u32,
    pub restores_not_newest: u32,
    pub compactions_ok: u32,
    pub compactions_refused: u32,
    pub checks: u32,
    pub poisoned_commits: u32,
    pub reader_probes: u32,
    pub owned_steps: u32,
    pub errors_expected: u32,
    pub catalog_errors: u32,
    pub renames_ok: u32,
    pub deletes_ok: u32,
    pub two_phase_commits: u32,
    pub quick_repair_commits: u32,
    pub max_live_readers: usize,
    pub max_height: u32,
}

pub struct Machine {
    pub cfg: DbCfg,
    pub profile: Profile,
    pub backend: RecBackend,
    pub db: Option<Database>,
    pub commits: Vec<Arc<DbState>>,
    /// index of the last commit point acknowledged as durable
    pub d: usize,
    pub w: Option<WTxn>,
    pub sps: Vec<SpM>,
    pub readers: Vec<ReaderM>,
    pub next_seq: u64,
    pub sticky: (Dur, bool, bool),
    pub stats: HStats,
    pub ctx: OpCtx,
    pub trace: Option<Vec<String>>,
    pub step: usize,
    /// signatures of non-trivial situations reached (property specific, filled by observers)
    pub nontrivial: Vec<u64>,
    pub classes: Vec<&'static str>,
    /// C05 bookkeeping: state captured when the current transaction began
    pub last_abandon: Option<AbandonInfo>,
    pub excluded_known: u64,
    /// strict mode: known findings are not excluded (used by the per-run probes)
    pub strict: bool,
    /// this history may contain bulk writes (hundreds of pages in one transaction)
    pub bulk_mode: bool,
    pub bulk_ops: u32,
    /// fault-injection mode (C08): storage errors are expected, see `exec_fault`
    pub fault_mode: bool,
    /// an I/O-class error has been reported to the caller since the last successful open
    pub surfaced: bool,
    pub surfaced_count: u32,
    /// a commit returned a storage error: whether it took effect is unknown until reopen
    pub uncertain: bool,
    pub writes_refused_after_error: u32,
    pub ended_by_failed_open: bool,
    /// C10: capture the durable image after every durable commit / clean close (record mode only)
    pub capture: bool,
    pub images: Vec<(usize, &'static str, Vec<u8>)>,
    img_durable: Vec<u8>,
    img_applied: usize,
}

#[derive(Clone, Debug)]
pub struct AbandonInfo {
    pub structural_ops: u32,
    pub alloc_ops: u32,
    pub how: &'static str,
    pub had_live_savepoint: bool,
    pub had_nondurable_before: bool,
}

macro_rules! tr {
    ($m:expr, $($arg:tt)*) => {
        if let Some(t) = $m.trace.as_mut() {
            t.push(format!($($arg)*));
        }
    };
}

fn terr_kind(e: &TableError) -> &'static str {
    match e {
        TableError::TableTypeMismatch { .. } => "TableTypeMismatch",
        TableError::TableIsMultimap(_) => "TableIsMultimap",
        TableError::TableIsNotMultimap(_) => "TableIsNotMultimap",
        TableError::TypeDefinitionChanged { .. } => "TypeDefinitionChanged",
        TableError::TableDoesNotExist(_) => "TableDoesNotExist",
        TableError::TableExists(_) => "TableExists",
        TableError::TableAlreadyOpen(_, _) => "TableAlreadyOpen",
        TableError::Storage(_) => "Storage",
        _ => "other",
    }
}

fn sperr_kind(e: &SavepointError) -> &'static str {
    match e {
        SavepointError::InvalidSavepoint => "InvalidSavepoint",
        SavepointError::ImmediateDurabilityRequired => "ImmediateDurabilityRequired",
        SavepointError::Storage(_) => "Storage",
        _ => "other",
    }
}

/// expected error of opening `name` with `want` given the model
pub fn expected_open_error(existing: Option<Def>, want: Def, already_open: bool) -> Option<&'static str> {
    if already_open {
        return Some("TableAlreadyOpen");
    }
    let Some(e) = existing else { return None };
    if e.multi != want.multi {
        return Some(if e.multi { "TableIsMultimap" } else { "TableIsNotMultimap" });
    }
    if e.kty != want.kty || e.vty != want.vty {
        return Some("TableTypeMismatch");
    }
    None
}

impl Machine {
    pub fn new(cfg: DbCfg, profile: Profile, record: bool, trace: bool) -> R<Machine> {
        let backend = RecBackend::new(record);
        let db = match catch(|| cfg.builder().create_with_backend(backend.clone())) {
            Ok(Ok(db)) => db,
            Ok(Err(e)) => sfail!("create", "creating a database failed: {e:?}"),
            Err(p) => sfail!(format!("panic:{}", normalize_sig(&p)), "panic while creating a database: {p}"),
        };
        let page = cfg.page_size;
        let m = Machine {
            cfg,
            profile,
            backend,
            db: Some(db),
            commits: vec![Arc::new(DbState::default())],
            d: 0,
            w: None,
            sps: vec![],
            readers: vec![],
            next_seq: 1,
            sticky: (Dur::Immediate, false, false),
            stats: HStats::default(),
            ctx: OpCtx { page, ..Default::default() },
            trace: trace.then(Vec::new),
            step: 0,
            nontrivial: vec![],
            classes: vec![],
            last_abandon: None,
            excluded_known: 0,
            strict: false,
            bulk_mode: false,
            bulk_ops: 0,
            fault_mode: false,
            surfaced: false,
            surfaced_count: 0,
            uncertain: false,
            writes_refused_after_error: 0,
            ended_by_failed_open: false,
            capture: false,
            images: vec![],
            img_durable: vec![],
            img_applied: 0,
        };
        m.backend.mark(0, 0, "created");
        Ok(m)
    }

    /// bring the durable image up to the last completed sync and store a copy
    pub fn capture_image(&mut self, kind: &'static str) {
        if !self.capture {
            return;
        }
        let g = self.backend.lock();
        // find the last sync
        let mut last_sync = None;
        for i in (self.img_applied..g.log.len()).rev() {
            if matches!(g.log[i], crate::backend::LogOp::Sync) {
                last_sync = Some(i);
                break;
            }
        }
        if let Some(ls) = last_sync {
            for op in &g.log[self.img_applied..=ls] {
                match op {
                    crate::backend::LogOp::Write { off, data } => {
                        let end = *off as usize + data.len();
                        if end <= self.img_durable.len() {
                            self.img_durable[*off as usize..end].copy_from_slice(data);
                        }
                    }
                    crate::backend::LogOp::SetLen(l) => self.img_durable.resize(*l as usize, 0),
                    _ => {}
                }
            }
            self.img_applied = ls + 1;
        }
        drop(g);
        let idx = self.commits.len() - 1;
        self.images.push((idx, kind, self.img_durable.clone()));
    }

    pub fn last(&self) -> &Arc<DbState> {
        self.commits.last().unwrap()
    }

    fn db(&self) -> &Database {
        self.db.as_ref().expect("harness: database handle missing")
    }

    // -----------------------------------------------------------------------------------------
    // write transaction lifecycle

    pub fn ensure_w(&mut self) -> R {
        if self.w.is_none() {
            let (dur, tp, qr) = self.sticky;
            self.begin_write(dur, tp, qr)?;
        }
        Ok(())
    }

    pub fn begin_write(&mut self, dur: Dur, two_phase: bool, quick_repair: bool) -> R {
        let mut txn = match self.db().begin_write() {
            Ok(t) => t,
            Err(e) => {
                if self.surfaced {
                    self.writes_refused_after_error += 1;
                }
                return Err(Stop::Io(format!("begin_write: {e:?}")));
            }
        };
        sensure!(!self.surfaced, "write-accepted-after-io-error", "begin_write() succeeded although a storage error had been reported earlier and the database was not reopened");
        tr!(self, "begin_write(durability={dur:?}, two_phase={two_phase}, quick_repair={quick_repair})");
        if dur == Dur::None {
            match txn.set_durability(Durability::None) {
                Ok(()) => {}
                Err(e) => sfail!("set_durability", "set_durability(None) on a fresh transaction failed: {e:?}"),
            }
        }
        txn.set_two_phase_commit(two_phase);
        txn.set_quick_repair(quick_repair);
        let begin_allocated_pages = match txn.stats() {
            Ok(s) => Some(s.allocated_pages()),
            Err(e) => return Err(Stop::Io(format!("stats: {e:?}"))),
        };
        self.w = Some(WTxn {
            held: BTreeMap::new(),
            txn: Some(Box::new(txn)),
            work: (**self.last()).clone(),
            dirty: false,
            dur,
            two_phase,
            quick_repair,
            psp_modified: false,
            invalidated: BTreeSet::new(),
            poisoned: false,
            restored: false,
            structural_ops: 0,
            alloc_ops: 0,
            freeing_ops: 0,
            tables_changed: BTreeSet::new(),
            begin_allocated_pages,
        });
        Ok(())
    }

    /// marks for the crash engine: commit requested
    fn mark_requested(&self, phase: &'static str) {
        self.backend.mark(self.d, self.commits.len(), phase);
    }

    fn mark_now(&self, phase: &'static str) {
        self.backend.mark(self.d, self.commits.len() - 1, phase);
    }

    pub fn commit(&mut self) -> R {
        let Some(mut w) = self.w.take() else { return Ok(()) };
        w.held.clear();
        let txn = *w.txn.take().unwrap();
        tr!(self, "commit() [durability={:?} 2pc={} qr={} poisoned={}]", w.dur, w.two_phase, w.quick_repair, w.poisoned);
        if w.poisoned {
            // commit of a poisoned transaction must be refused and act as an abort
            self.mark_now("poisoned-commit");
            let r = catch(|| txn.commit());
            match r {
                Ok(Err(CommitError::TransactionPoisoned)) => {}
                Ok(Err(CommitError::Storage(e))) => return Err(Stop::Io(format!("commit: {e:?}"))),
                Ok(Err(e)) => sfail!("poisoned-commit", "commit() of a poisoned transaction returned {e:?}, expected TransactionPoisoned"),
                Ok(Ok(())) => sfail!("poisoned-commit-ok", "commit() of a poisoned transaction returned Ok"),
                Err(p) => sfail!(format!("panic:{}", normalize_sig(&p)), "panic in commit(): {p}"),
            }
            self.stats.poisoned_commits += 1;
            self.note_abandon(&w, "poisoned-commit");
            self.mark_now("idle");
            return self.after_abandon(&w);
        }
        self.mark_requested("commit");
        let r = catch(|| txn.commit());
        match r {
            Ok(Ok(())) => {}
            Ok(Err(CommitError::Storage(e))) => {
                // the commit may or may not have taken effect; only fault injection gets here
                self.uncertain = true;
                self.commits.push(Arc::new(w.work.clone()));
                self.apply_commit_side_effects(&w);
                return Err(Stop::Io(format!("commit: {e:?}")));
            }
            Ok(Err(CommitError::TransactionPoisoned)) if self.fault_mode && self.backend.lock().fault_fired => {
                // an operation failed part-way under the injected fault and poisoned the
                // transaction: the commit is refused, which is an error report, and acts as abort
                self.mark_now("idle");
                return Ok(());
            }
            Ok(Err(e)) => sfail!("commit", "commit() failed: {e:?}"),
            Err(p) => sfail!(format!("panic:{}", normalize_sig(&p)), "panic in commit(): {p}"),
        }
        self.commits.push(Arc::new(w.work.clone()));
        self.apply_commit_side_effects(&w);
        if w.dur == Dur::Immediate {
            self.d = self.commits.len() - 1;
            self.capture_image(if w.quick_repair { "quick-repair commit" } else if w.two_phase { "2PC commit" } else { "1PC commit" });
        }
        self.mark_now("idle");
        self.stats.commits += 1;
        if w.dur == Dur::None {
            self.stats.nd_commits += 1;
        } else if w.quick_repair {
            self.stats.quick_repair_commits += 1;
        } else if w.two_phase {
            self.stats.two_phase_commits += 1;
        }
        for r in &mut self.readers {
            if w.freeing_ops > 0 {
                r.later_commits_freeing += 1;
            }
            if w.alloc_ops > 0 {
                r.later_commits_allocating += 1;
            }
            if w.dur == Dur::None {
                r.later_nondurable += 1;
            }
        }
        if self.profile.verify_each_commit {
            self.verify_committed()?;
        }
        Ok(())
    }

    fn apply_commit_side_effects(&mut self, w: &WTxn) {
        // savepoints invalidated by a restore in this transaction are now invalid for everyone
        for sp in &mut self.sps {
            if w.invalidated.contains(&sp.seq) {
                sp.invalid = true;
            }
            if let Some(id) = sp.persistent
                && !w.work.psp.contains_key(&id)
            {
                sp.invalid = true;
            }
        }
    }

    fn note_abandon(&mut self, w: &WTxn, how: &'static str) {
        self.last_abandon = Some(AbandonInfo {
            structural_ops: w.structural_ops,
            alloc_ops: w.alloc_ops,
            how,
            had_live_savepoint: self.sps.iter().any(|s| !s.invalid && (s.handle.is_some() || s.persistent.is_some())),
            had_nondurable_before: self.d + 1 < self.commits.len(),
        });
    }

    pub fn abort(&mut self, by_drop: bool) -> R {
        let Some(mut w) = self.w.take() else { return Ok(()) };
        w.held.clear();
        let txn = *w.txn.take().unwrap();
        tr!(self, "{}", if by_drop { "drop(write transaction)" } else { "abort()" });
        self.mark_now("abort");
        if by_drop {
            if let Err(p) = catch(|| drop(txn)) {
                sfail!(format!("panic:{}", normalize_sig(&p)), "panic while dropping a write transaction: {p}");
            }
        } else {
            match catch(|| txn.abort()) {
                Ok(Ok(())) => {}
                Ok(Err(e)) => return Err(Stop::Io(format!("abort: {e:?}"))),
                Err(p) => sfail!(format!("panic:{}", normalize_sig(&p)), "panic in abort(): {p}"),
            }
        }
        self.stats.aborts += 1;
        self.note_abandon(&w, if by_drop { "drop" } else { "abort" });
        self.mark_now("idle");
        self.after_abandon(&w)
    }

    /// C05 oracle: after an abandoned transaction everything is as before it began
    fn after_abandon(&mut self, w: &WTxn) -> R {
        // persistent savepoints created in the abandoned transaction never existed
        let committed_ids: BTreeSet<u64> = self.last().psp.keys().copied().collect();
        let ever: BTreeSet<u64> = self.commits.iter().flat_map(|c| c.psp.keys().copied()).collect();
        self.sps.retain(|sp| sp.persistent.is_none_or(|id| ever.contains(&id)));
        self.verify_committed()?;
        // storage: allocated pages as seen by the next transaction equal those seen at the
        // start of the abandoned one
        let before = w.begin_allocated_pages;
        let txn = match self.db().begin_write() {
            Ok(t) => t,
            Err(e) => return Err(Stop::Io(format!("begin_write: {e:?}"))),
        };
        let after = io!(txn.stats()).allocated_pages();
        // persistent savepoints as listed by the next transaction
        let listed: BTreeSet<u64> = io!(txn.list_persistent_savepoints()).collect();
        io!(txn.abort());
        sensure!(listed == committed_ids, "abandon-savepoints", "after an abandoned transaction list_persistent_savepoints() is {listed:?}, expected {committed_ids:?}");
        if let Some(b) = before {
            sensure!(b == after, "abandon-pages", "allocated pages were {b} when the abandoned transaction began and are {after} after it ended (space still consumed or over-released)");
        }
        Ok(())
    }

    // -----------------------------------------------------------------------------------------
    // verification of committed contents through the public read API

    pub fn verify_committed(&mut self) -> R {
        if self.surfaced || self.uncertain {
            // after a reported storage error the in-session view may legitimately be either side
            // of the failed commit; the reopen oracle decides
            return Ok(());
        }
        let st = self.last().clone();
        let db = self.db.as_ref().unwrap();
        verify_db_tables(db, &st.tables)
    }

    // -----------------------------------------------------------------------------------------
    // one tape record

    pub fn exec(&mut self, rec: &[u8; 12]) -> R {
        self.step += 1;
        if self.bulk_mode && rec[9] >= 250 {
            return self.op_bulk(rec);
        }
        let mut r = Rec::new(rec);
        let kind = r.weighted(&self.profile.weights());
        match kind {
            0 => self.op_table(&mut r, rec),
            1 => {
                if self.w.is_some() {
                    self.commit()
                } else {
                    Ok(())
                }
            }
            2 => {
                let by_drop = r.bool();
                self.abort(by_drop)
            }
            3 => self.op_begin(&mut r),
            4 => self.op_savepoint(false),
            5 => self.op_savepoint(true),
            6 => self.op_restore(&mut r),
            7 => self.op_delete_persistent(&mut r),
            8 => self.op_drop_ephemeral(&mut r),
            9 => self.op_begin_read(),
            10 => self.op_reader_probe(&mut r, rec, false),
            11 => self.op_reader_probe(&mut r, rec, true),
            12 => self.op_drop_reader(&mut r),
            13 => self.op_reopen(),
            14 => self.op_compact(&mut r),
            15 => self.op_check_integrity(),
            16 => self.op_rename(&mut r),
            17 => self.op_delete_table(&mut r),
            18 => self.op_list(),
            19 => self.op_hold(&mut r),
            20 => self.op_drop_hold(&mut r),
            _ => self.op_owned_step(&mut r),
        }?;
        if self.profile.probe_readers_each_step {
            self.probe_all_readers()?;
        }
        self.stats.max_live_readers = self.stats.max_live_readers.max(self.readers.len());
        Ok(())
    }

    fn op_begin(&mut self, r: &mut Rec) -> R {
        let b = r.u8();
        let dur = if u32::from(r.u8()) < self.profile.nondurable { Dur::None } else { Dur::Immediate };
        let two_phase = b & 1 == 1;
        let quick_repair = b & 6 == 6;
        if self.w.is_none() {
            self.sticky = (dur, two_phase, quick_repair);
            self.begin_write(dur, two_phase, quick_repair)
        } else {
            // change the flavour of the open transaction
            let w = self.w.as_mut().unwrap();
            let txn = w.txn.as_mut().unwrap();
            let res = txn.set_durability(match dur {
                Dur::None => Durability::None,
                Dur::Immediate => Durability::Immediate,
            });
            let expect_err = dur == Dur::None && w.psp_modified;
            tr!(self, "set_durability({dur:?}) -> {}", if res.is_ok() { "Ok" } else { "Err" });
            let w = self.w.as_mut().unwrap();
            match (res, expect_err) {
                (Ok(()), false) => w.dur = dur,
                (Err(SetDurabilityError::PersistentSavepointModified), true) => self.stats.errors_expected += 1,
                (Ok(()), true) => sfail!("set_durability", "set_durability(None) succeeded although a persistent savepoint was created or deleted in this transaction"),
                (Err(e), _) => sfail!("set_durability", "set_durability({dur:?}) failed unexpectedly: {e:?}"),
            }
            let w = self.w.as_mut().unwrap();
            let txn = w.txn.as_mut().unwrap();
            txn.set_two_phase_commit(two_phase);
            txn.set_quick_repair(quick_repair);
            w.two_phase = two_phase;
            w.quick_repair = quick_repair;
            Ok(())
        }
    }

    fn pick_def(&self, name: &str, r: &mut Rec) -> (Def, bool) {
        // canonical definition per name; occasionally a deliberately different one
        let canon = DEFS[NAMES.iter().position(|n| *n == name).unwrap_or(0) % DEFS.len()];
        let sel = r.u8();
        let existing = self.w.as_ref().and_then(|w| w.work.tables.get(name)).map(|t| t.def());
        let base = existing.unwrap_or(canon);
        if u32::from(sel) < self.profile.mismatch {
            let alt = DEFS[(sel as usize * 7 + 3) % DEFS.len()];
            (alt, alt != base)
        } else {
            (base, false)
        }
    }

    /// open `name` with `def` in the current write transaction, checking the catalog rules
    fn open_checked(&mut self, name: &str, def: Def) -> R<Option<Box<dyn DynTab>>> {
        let w = self.w.as_mut().unwrap();
        let existing = w.work.tables.get(name).map(|t| t.def());
        let already = w.held.contains_key(name);
        let expect = expected_open_error(existing, def, already);
        let txn: &WriteTransaction = w.txn.as_ref().unwrap();
        let res = catch(|| unsafe { open_held(txn, name, def) });
        let res = match res {
            Ok(r) => r,
            Err(p) => sfail!(format!("panic:{}", normalize_sig(&p)), "panic in open_table({name:?}): {p}"),
        };
        match (res, expect) {
            (Ok(t), None) => {
                w.dirty = true;
                if existing.is_none() {
                    Arc::make_mut(&mut w.work.tables).insert(name.to_string(), TableM::new(def));
                    w.structural_ops += 1;
                    w.tables_changed.insert(name.to_string());
                }
                Ok(Some(t))
            }
            (Err(TableError::Storage(e)), _) => Err(Stop::Io(format!("open_table: {e:?}"))),
            (Err(e), Some(k)) => {
                let got = terr_kind(&e);
                sensure!(got == k, "open-error-variant", "opening {name:?} as {} (stored: {:?}, already open: {already}) returned {got}, expected {k}", def.label(), existing.map(|d| d.label()));
                self.stats.catalog_errors += 1;
                tr!(self, "open {name:?} as {} -> {k} (expected)", def.label());
                Ok(None)
            }
            (Ok(_), Some(k)) => sfail!("open-should-fail", "opening {name:?} as {} succeeded, expected {k} (stored: {:?}, already open: {already})", def.label(), existing.map(|d| d.label())),
            (Err(e), None) => sfail!("open-unexpected-error", "opening {name:?} as {} failed: {e:?} (model: stored {:?})", def.label(), existing.map(|d| d.label())),
        }
    }

    fn op_table(&mut self, r: &mut Rec, rec: &[u8; 12]) -> R {
        self.ensure_w()?;
        if self.w.as_ref().unwrap().poisoned {
            return Ok(());
        }
        let name = NAMES[r.idx8(NAMES.len())];
        let (def, _mismatch) = self.pick_def(name, r);
        let held = self.w.as_ref().unwrap().held.contains_key(name);
        let existing = self.w.as_ref().unwrap().work.tables.get(name).map(|t| t.def());
        // use the held handle when there is one and the definition is the stored one
        let mut temp: Option<Box<dyn DynTab>> = None;
        if !(held && existing == Some(def)) {
            match self.open_checked(name, def)? {
                Some(t) => temp = Some(t),
                None => return Ok(()),
            }
        }
        let tag = ((self.step as u64) << 20) | u64::from(rec[10]) << 8 | u64::from(rec[11]);
        let universe = self.profile.key_universe;
        let op = if def.multi {
            AnyOp::M(decode_mop(r, def.kty, def.vty, &self.cfg, universe.min(6), 120))
        } else if self.profile.allow_panic && rec[9] >= 244 {
            // C05: a retain whose predicate panics after 0-3 entries (the transaction is poisoned
            // and its commit must be refused and leave no trace) in about one table op in twenty
            AnyOp::T(crate::tableops::TOp::Retain { salt: tag, keep: rec[8], range: None, panic_at: Some(u32::from(rec[7] % 4)) })
        } else {
            AnyOp::T(decode_top(r, def.kty, def.vty, &self.cfg, universe, tag, self.profile.allow_panic))
        };
        tr!(self, "{name:?} [{}]: {op:?}", def.label());
        let w = self.w.as_mut().unwrap();
        let model = Arc::make_mut(&mut w.work.tables).get_mut(name).expect("harness: model table missing");
        let before = model.entries();
        let handle: &mut Box<dyn DynTab> = match temp.as_mut() {
            Some(t) => t,
            None => w.held.get_mut(name).unwrap(),
        };
        let res = catch(|| handle.apply(&op, model, &mut self.ctx));
        let out = match res {
            Ok(r) => r?,
            Err(p) => sfail!(format!("panic:{}", normalize_sig(&p)), "panic inside a table operation {op:?}: {p}"),
        };
        if out.poisoned {
            w.poisoned = true;
            // the model's working copy is now meaningless; the commit must be refused
            w.held.clear();
            tr!(self, "  -> predicate panicked: transaction poisoned");
            return Ok(());
        }
        if op.mutates() {
            w.tables_changed.insert(name.to_string());
            let after = model.entries();
            if after >= before {
                w.alloc_ops += 1;
            }
            if after <= before {
                w.freeing_ops += 1;
            }
            if let Ok(h) = handle.tree_height() {
                self.stats.max_height = self.stats.max_height.max(h);
            }
        }
        drop(temp);
        Ok(())
    }

    /// Bulk write: (re)write 410-510 rows of about one page each into table "t0" in the current
    /// transaction, or delete that table once it is big. Every bulk write after the first frees
    /// more than 400 pages in one transaction, which is what makes the pending-free records of a
    /// commit span several entries (400 pages per entry).
    fn op_bulk(&mut self, rec: &[u8; 12]) -> R {
        self.ensure_w()?;
        if self.w.as_ref().unwrap().poisoned {
            return Ok(());
        }
        let name = NAMES[0];
        let existing = self.w.as_ref().unwrap().work.tables.get(name).map(|t| (t.def(), t.entries()));
        let def = existing.map(|e| e.0).unwrap_or(DEFS[0]);
        if def.multi {
            return Ok(());
        }
        let held = self.w.as_ref().unwrap().held.contains_key(name);
        if let Some((_, n)) = existing
            && n >= 400
            && !held
            && rec[7] % 4 == 0
        {
            // delete the big table
            let w = self.w.as_mut().unwrap();
            let txn: &WriteTransaction = w.txn.as_ref().unwrap();
            let d: redb::TableDefinition<u64, u64> = redb::TableDefinition::new(name);
            match catch(|| txn.delete_table(d)) {
                Ok(Ok(true)) => {}
                Ok(Ok(false)) => sfail!("delete-result", "delete_table({name:?}) returned false for an existing table"),
                Ok(Err(TableError::Storage(e))) => return Err(Stop::Io(format!("delete: {e:?}"))),
                Ok(Err(e)) => sfail!("delete-unexpected-error", "delete_table({name:?}) failed: {e:?}"),
                Err(p) => sfail!(format!("panic:{}", normalize_sig(&p)), "panic in delete_table({name:?}): {p}"),
            }
            w.dirty = true;
            Arc::make_mut(&mut w.work.tables).remove(name);
            w.structural_ops += 1;
            w.freeing_ops += 1;
            w.tables_changed.insert(name.to_string());
            self.stats.deletes_ok += 1;
            self.bulk_ops += 1;
            tr!(self, "bulk: delete_table({name:?}) of a table with >= 400 rows");
            return Ok(());
        }
        let mut temp: Option<Box<dyn DynTab>> = None;
        if !held {
            match self.open_checked(name, def)? {
                Some(t) => temp = Some(t),
                None => return Ok(()),
            }
        }
        let n = 410 + (rec[8] as usize % 3) * 50;
        let page = self.cfg.page_size;
        let tag0 = ((self.step as u64) << 20) | u64::from(rec[10]) << 8 | u64::from(rec[11]);
        let thin = existing.is_some_and(|e| e.1 >= 400) && rec[7] % 4 == 1;
        if thin {
            // thin out a sub-range of the bulk rows (keep about 6%): whole bottom-level branches
            // repack into single leaves while their siblings keep their level
            let a = (rec[5] as usize * 3) % 300;
            let b = a + 40 + (rec[6] as usize % 8) * 25;
            let (mut lo, mut hi) = (crate::genr::key(def.kty, 1000 + 4 * a, page), crate::genr::key(def.kty, 1000 + 4 * b, page));
            if lo > hi {
                std::mem::swap(&mut lo, &mut hi);
            }
            let op = AnyOp::T(crate::tableops::TOp::Retain { salt: tag0, keep: 0, range: Some((std::ops::Bound::Included(lo), std::ops::Bound::Excluded(hi))), panic_at: None });
            tr!(self, "bulk: {op:?} on {name:?}");
            let w = self.w.as_mut().unwrap();
            let model = Arc::make_mut(&mut w.work.tables).get_mut(name).expect("harness: model table missing");
            let handle: &mut Box<dyn DynTab> = match temp.as_mut() {
                Some(t) => t,
                None => w.held.get_mut(name).unwrap(),
            };
            match catch(|| handle.apply(&op, model, &mut self.ctx)) {
                Ok(r) => {
                    r?;
                }
                Err(p) => sfail!(format!("panic:{}", normalize_sig(&p)), "panic inside a ranged retain over bulk rows: {p}"),
            }
            w.tables_changed.insert(name.to_string());
            w.freeing_ops += 1;
            drop(temp);
            self.bulk_ops += 1;
            return Ok(());
        }
        tr!(self, "bulk: {n} inserts of ~1 page each into {name:?} [{}]", def.label());
        let w = self.w.as_mut().unwrap();
        let model = Arc::make_mut(&mut w.work.tables).get_mut(name).expect("harness: model table missing");
        let handle: &mut Box<dyn DynTab> = match temp.as_mut() {
            Some(t) => t,
            None => w.held.get_mut(name).unwrap(),
        };
        for i in 0..n {
            // class 190 of value_len is "page - 64 +- d": one row per leaf
            let op = AnyOp::T(crate::tableops::TOp::Insert { k: crate::genr::key(def.kty, 1000 + 4 * i, page), v: crate::genr::val_of(def.vty, tag0 ^ ((i as u64) << 40), 190, (i % 17) as u8, page, self.cfg.max_value_len()) });
            let res = catch(|| handle.apply(&op, model, &mut self.ctx));
            match res {
                Ok(r) => {
                    r?;
                }
                Err(p) => sfail!(format!("panic:{}", normalize_sig(&p)), "panic inside insert {i} of a bulk write: {p}"),
            }
        }
        w.tables_changed.insert(name.to_string());
        w.alloc_ops += 1;
        w.freeing_ops += 1;
        if let Ok(h) = handle.tree_height() {
            self.stats.max_height = self.stats.max_height.max(h);
        }
        drop(temp);
        self.bulk_ops += 1;
        Ok(())
    }

    fn op_hold(&mut self, r: &mut Rec) -> R {
        self.ensure_w()?;
        if self.w.as_ref().unwrap().poisoned {
            return Ok(());
        }
        let name = NAMES[r.idx8(NAMES.len())];
        let (def, _) = self.pick_def(name, r);
        tr!(self, "open and hold {name:?} as {}", def.label());
        if let Some(t) = self.open_checked(name, def)? {
            self.w.as_mut().unwrap().held.insert(name.to_string(), t);
        }
        Ok(())
    }

    fn op_drop_hold(&mut self, r: &mut Rec) -> R {
        if let Some(w) = self.w.as_mut()
            && !w.held.is_empty()
        {
            let i = r.idx8(w.held.len());
            let name = w.held.keys().nth(i).unwrap().clone();
            // contents of a handle being closed must equal the model
            let t = w.held.remove(&name).unwrap();
            if !w.poisoned {
                t.full(w.work.tables.get(&name).unwrap())?;
            }
            drop(t);
            tr!(self, "drop held handle {name:?}");
        }
        Ok(())
    }

    fn op_rename(&mut self, r: &mut Rec) -> R {
        self.ensure_w()?;
        if self.w.as_ref().unwrap().poisoned {
            return Ok(());
        }
        let from = NAMES[r.idx8(NAMES.len())];
        let to = NAMES[r.idx8(NAMES.len())];
        let as_multi_sel = r.u8();
        let w = self.w.as_mut().unwrap();
        let existing = w.work.tables.get(from).map(|t| t.def());
        // call the method matching the stored kind most of the time
        let as_multi = match existing {
            Some(d) if as_multi_sel < 230 => d.multi,
            _ => as_multi_sel & 1 == 1,
        };
        let open = w.held.contains_key(from);
        let target = w.work.tables.get(to).map(|t| t.def());
        let expect: Result<(), &str> = if open {
            Err("TableAlreadyOpen")
        } else {
            match existing {
                None => Err("TableDoesNotExist"),
                Some(d) if d.multi != as_multi => Err(if d.multi { "TableIsMultimap" } else { "TableIsNotMultimap" }),
                Some(_) if from == to => Ok(()),
                Some(_) => match target {
                    None => Ok(()),
                    Some(t) if t.multi == as_multi => Err("TableExists"),
                    Some(_) => Err("any"),
                },
            }
        };
        let txn: &WriteTransaction = w.txn.as_ref().unwrap();
        let res = catch(|| {
            if as_multi {
                let d1: redb::MultimapTableDefinition<u64, u64> = redb::MultimapTableDefinition::new(from);
                let d2: redb::MultimapTableDefinition<u64, u64> = redb::MultimapTableDefinition::new(to);
                txn.rename_multimap_table(d1, d2)
            } else {
                let d1: redb::TableDefinition<u64, u64> = redb::TableDefinition::new(from);
                let d2: redb::TableDefinition<u64, u64> = redb::TableDefinition::new(to);
                txn.rename_table(d1, d2)
            }
        });
        let res = match res {
            Ok(r) => r,
            Err(p) => sfail!(format!("panic:{}", normalize_sig(&p)), "panic in rename_table({from:?},{to:?}): {p}"),
        };
        w.dirty = true;
        tr!(self, "rename_{}table({from:?} -> {to:?}) -> {:?}", if as_multi { "multimap_" } else { "" }, res.as_ref().map_err(terr_kind));
        let w = self.w.as_mut().unwrap();
        match (res, expect) {
            (Ok(()), Ok(())) => {
                if from != to {
                    let tables = Arc::make_mut(&mut w.work.tables);
                    let t = tables.remove(from).unwrap();
                    tables.insert(to.to_string(), t);
                    w.tables_changed.insert(from.to_string());
                    w.tables_changed.insert(to.to_string());
                }
                w.structural_ops += 1;
                self.stats.renames_ok += 1;
            }
            (Err(TableError::Storage(e)), _) => return Err(Stop::Io(format!("rename: {e:?}"))),
            (Err(e), Err(k)) => {
                let got = terr_kind(&e);
                sensure!(k == "any" || got == k, "rename-error-variant", "rename {from:?}->{to:?} returned {got}, expected {k}");
                self.stats.catalog_errors += 1;
            }
            (Ok(()), Err(k)) => sfail!("rename-should-fail", "rename {from:?}->{to:?} succeeded, expected {k} (source {existing:?}, target {target:?}, open {open})"),
            (Err(e), Ok(())) => sfail!("rename-unexpected-error", "rename {from:?}->{to:?} failed: {e:?} (source {existing:?}, target {target:?})"),
        }
        Ok(())
    }

    fn op_delete_table(&mut self, r: &mut Rec) -> R {
        self.ensure_w()?;
        if self.w.as_ref().unwrap().poisoned {
            return Ok(());
        }
        let name = NAMES[r.idx8(NAMES.len())];
        let sel = r.u8();
        let w = self.w.as_mut().unwrap();
        let existing = w.work.tables.get(name).map(|t| t.def());
        let as_multi = match existing {
            Some(d) if sel < 230 => d.multi,
            _ => sel & 1 == 1,
        };
        let open = w.held.contains_key(name);
        let expect: Result<bool, &str> = if open {
            Err("TableAlreadyOpen")
        } else {
            match existing {
                None => Ok(false),
                Some(d) if d.multi != as_multi => Err(if d.multi { "TableIsMultimap" } else { "TableIsNotMultimap" }),
                Some(_) => Ok(true),
            }
        };
        let txn: &WriteTransaction = w.txn.as_ref().unwrap();
        let res = catch(|| {
            if as_multi {
                let d: redb::MultimapTableDefinition<u64, u64> = redb::MultimapTableDefinition::new(name);
                txn.delete_multimap_table(d)
            } else {
                let d: redb::TableDefinition<u64, u64> = redb::TableDefinition::new(name);
                txn.delete_table(d)
            }
        });
        let res = match res {
            Ok(r) => r,
            Err(p) => sfail!(format!("panic:{}", normalize_sig(&p)), "panic in delete_table({name:?}): {p}"),
        };
        w.dirty = true;
        tr!(self, "delete_{}table({name:?}) -> {:?}", if as_multi { "multimap_" } else { "" }, res.as_ref().map_err(terr_kind));
        let w = self.w.as_mut().unwrap();
        match (res, expect) {
            (Ok(b), Ok(e)) => {
                sensure!(b == e, "delete-result", "delete_table({name:?}) returned {b}, model says {e}");
                if b {
                    Arc::make_mut(&mut w.work.tables).remove(name);
                    w.structural_ops += 1;
                    w.freeing_ops += 1;
                    w.tables_changed.insert(name.to_string());
                    self.stats.deletes_ok += 1;
                }
            }
            (Err(TableError::Storage(e)), _) => return Err(Stop::Io(format!("delete: {e:?}"))),
            (Err(e), Err(k)) => {
                let got = terr_kind(&e);
                sensure!(got == k, "delete-error-variant", "delete_table({name:?}) returned {got}, expected {k}");
                self.stats.catalog_errors += 1;
            }
            (Ok(b), Err(k)) => sfail!("delete-should-fail", "delete_table({name:?}) returned Ok({b}), expected {k}"),
            (Err(e), Ok(_)) => sfail!("delete-unexpected-error", "delete_table({name:?}) failed: {e:?}"),
        }
        Ok(())
    }

    fn op_list(&mut self) -> R {
        if let Some(w) = self.w.as_ref() {
            if w.poisoned {
                return Ok(());
            }
            let txn = w.txn.as_ref().unwrap();
            let n: Vec<String> = io!(txn.list_tables()).map(|h| h.name().to_string()).collect();
            let m: Vec<String> = io!(txn.list_multimap_tables()).map(|h| h.name().to_string()).collect();
            check_lists(&n, &m, &w.work.tables, "write transaction")?;
        } else if !(self.surfaced || self.uncertain) {
            let rt = match self.db().begin_read() {
                Ok(t) => t,
                Err(e) => return Err(Stop::Io(format!("begin_read: {e:?}"))),
            };
            let n: Vec<String> = io!(rt.list_tables()).map(|h| h.name().to_string()).collect();
            let m: Vec<String> = io!(rt.list_multimap_tables()).map(|h| h.name().to_string()).collect();
            check_lists(&n, &m, &self.last().tables, "read transaction")?;
        }
        Ok(())
    }

    // -----------------------------------------------------------------------------------------
    // savepoints

    fn op_savepoint(&mut self, persistent: bool) -> R {
        self.ensure_w()?;
        if self.w.as_ref().unwrap().poisoned {
            return Ok(());
        }
        let captured = self.last().tables.clone();
        let w = self.w.as_mut().unwrap();
        let txn = w.txn.as_ref().unwrap();
        if persistent {
            let expect = if w.dur != Dur::Immediate {
                Err("ImmediateDurabilityRequired")
            } else if w.dirty {
                Err("InvalidSavepoint")
            } else {
                Ok(())
            };
            let res = match catch(|| txn.persistent_savepoint()) {
                Ok(r) => r,
                Err(p) => sfail!(format!("panic:{}", normalize_sig(&p)), "panic in persistent_savepoint(): {p}"),
            };
            tr!(self, "persistent_savepoint() -> {:?}", res.as_ref().map_err(sperr_kind));
            let w = self.w.as_mut().unwrap();
            match (res, expect) {
                (Ok(id), Ok(())) => {
                    // ids of savepoints that were committed at some point must not come back while
                    // the harness can still name them (an id from an aborted transaction may be reused)
                    sensure!(!self.sps.iter().any(|s| s.persistent == Some(id)), "savepoint-id-reuse", "persistent_savepoint() returned id {id}, which an earlier committed savepoint of this history already had");
                    sensure!(!w.work.psp.contains_key(&id), "savepoint-id-reuse", "persistent_savepoint() returned id {id} which is still in use");
                    let seq = self.next_seq;
                    self.next_seq += 1;
                    w.work.psp.insert(id, PspM { seq, captured: captured.clone() });
                    w.psp_modified = true;
                    w.structural_ops += 1;
                    self.sps.push(SpM { seq, persistent: Some(id), handle: None, captured, invalid: false });
                }
                (Err(SavepointError::Storage(e)), _) => return Err(Stop::Io(format!("persistent_savepoint: {e:?}"))),
                (Err(e), Err(k)) => {
                    sensure!(sperr_kind(&e) == k, "savepoint-error-variant", "persistent_savepoint() returned {e:?}, expected {k}");
                    self.stats.errors_expected += 1;
                }
                (Ok(id), Err(k)) => sfail!("savepoint-should-fail", "persistent_savepoint() returned Ok({id}), expected {k} (dirty={}, durability={:?})", w.dirty, w.dur),
                (Err(e), Ok(())) => sfail!("savepoint-unexpected-error", "persistent_savepoint() failed: {e:?} (dirty={}, durability={:?})", w.dirty, w.dur),
            }
        } else {
            let expect = if w.dirty { Err("InvalidSavepoint") } else { Ok(()) };
            let res = match catch(|| txn.ephemeral_savepoint()) {
                Ok(r) => r,
                Err(p) => sfail!(format!("panic:{}", normalize_sig(&p)), "panic in ephemeral_savepoint(): {p}"),
            };
            tr!(self, "ephemeral_savepoint() -> {:?}", res.as_ref().map(|_| ()).map_err(sperr_kind));
            let w = self.w.as_mut().unwrap();
            match (res, expect) {
                (Ok(h), Ok(())) => {
                    let seq = self.next_seq;
                    self.next_seq += 1;
                    w.structural_ops += 1;
                    self.sps.push(SpM { seq, persistent: None, handle: Some(h), captured, invalid: false });
                }
                (Err(SavepointError::Storage(e)), _) => return Err(Stop::Io(format!("ephemeral_savepoint: {e:?}"))),
                (Err(e), Err(k)) => {
                    sensure!(sperr_kind(&e) == k, "savepoint-error-variant", "ephemeral_savepoint() returned {e:?}, expected {k}");
                    self.stats.errors_expected += 1;
                }
                (Ok(_), Err(k)) => sfail!("savepoint-should-fail", "ephemeral_savepoint() succeeded in a dirty transaction, expected {k}"),
                (Err(e), Ok(())) => sfail!("savepoint-unexpected-error", "ephemeral_savepoint() failed: {e:?} (dirty={})", w.dirty),
            }
        }
        Ok(())
    }

    fn op_restore(&mut self, r: &mut Rec) -> R {
        // candidates: every savepoint the harness can still name (ephemeral handles still held,
        // persistent ids ever created -- also deleted/invalidated ones, to check refusal)
        let cands: Vec<usize> = (0..self.sps.len()).filter(|i| self.sps[*i].handle.is_some() || self.sps[*i].persistent.is_some()).collect();
        if cands.is_empty() {
            return Ok(());
        }
        self.ensure_w()?;
        if self.w.as_ref().unwrap().poisoned {
            return Ok(());
        }
        // prefer savepoints that are not the newest
        let pick = cands[r.idx8(cands.len())];
        let w = self.w.as_mut().unwrap();
        // handles must not be open across restore (&mut self)
        for (name, t) in std::mem::take(&mut w.held) {
            t.full(w.work.tables.get(&name).unwrap())?;
        }
        let sp = &self.sps[pick];
        let seq = sp.seq;
        let txn = w.txn.as_mut().unwrap();
        // obtain the Savepoint object
        let fetched: Option<Savepoint>;
        let sref: &Savepoint = if let Some(id) = sp.persistent {
            let expect_present = w.work.psp.contains_key(&id);
            let res = match catch(|| txn.get_persistent_savepoint(id)) {
                Ok(r) => r,
                Err(p) => sfail!(format!("panic:{}", normalize_sig(&p)), "panic in get_persistent_savepoint({id}): {p}"),
            };
            match (res, expect_present) {
                (Ok(s), true) => {
                    fetched = Some(s);
                    fetched.as_ref().unwrap()
                }
                (Err(SavepointError::InvalidSavepoint), false) => {
                    tr!(self, "get_persistent_savepoint({id}) -> InvalidSavepoint (expected: deleted/invalidated)");
                    self.stats.errors_expected += 1;
                    return Ok(());
                }
                (Err(SavepointError::Storage(e)), _) => return Err(Stop::Io(format!("get_persistent_savepoint: {e:?}"))),
                (Ok(_), false) => sfail!("savepoint-resurrected", "get_persistent_savepoint({id}) succeeded although the savepoint was deleted or invalidated"),
                (Err(e), _) => sfail!("savepoint-lost", "get_persistent_savepoint({id}) failed with {e:?} (model says present={expect_present})"),
            }
        } else {
            sp.handle.as_ref().unwrap()
        };
        let valid = !sp.invalid && !w.invalidated.contains(&seq);
        let later_persistent = w.work.psp.values().any(|p| p.seq > seq);
        let expect = if !valid {
            Err("InvalidSavepoint")
        } else if w.dur != Dur::Immediate && later_persistent {
            Err("ImmediateDurabilityRequired")
        } else {
            Ok(())
        };
        let res = match catch(|| txn.restore_savepoint(sref)) {
            Ok(r) => r,
            Err(p) => sfail!(format!("panic:{}", normalize_sig(&p)), "panic in restore_savepoint(): {p}"),
        };
        tr!(self, "restore_savepoint(seq {seq}{}) -> {:?}", sp.persistent.map(|i| format!(", persistent id {i}")).unwrap_or_default(), res.as_ref().map_err(sperr_kind));
        let newest = self.sps.iter().filter(|s| !s.invalid && (s.handle.is_some() || s.persistent.is_some())).map(|s| s.seq).max();
        let w = self.w.as_mut().unwrap();
        match (res, expect) {
            (Ok(()), Ok(())) => {
                let captured = self.sps[pick].captured.clone();
                w.work.tables = captured;
                let removed: Vec<u64> = w.work.psp.iter().filter(|(_, p)| p.seq > seq).map(|(id, _)| *id).collect();
                for id in removed {
                    w.work.psp.remove(&id);
                    w.psp_modified = true;
                }
                for s in &self.sps {
                    if s.seq > seq {
                        w.invalidated.insert(s.seq);
                    }
                }
                w.dirty = true;
                w.restored = true;
                w.structural_ops += 1;
                w.freeing_ops += 1;
                w.alloc_ops += 1;
                self.stats.restores += 1;
                if newest != Some(seq) {
                    self.stats.restores_not_newest += 1;
                }
            }
            (Err(SavepointError::Storage(e)), _) => return Err(Stop::Io(format!("restore_savepoint: {e:?}"))),
            (Err(e), Err(k)) => {
                sensure!(sperr_kind(&e) == k, "restore-error-variant", "restore_savepoint(seq {seq}) returned {e:?}, expected {k}");
                self.stats.errors_expected += 1;
            }
            (Ok(()), Err(k)) => sfail!("restore-should-fail", "restore_savepoint(seq {seq}) succeeded, expected {k} (savepoint invalidated by an earlier restore, deleted, or durability too low)"),
            (Err(e), Ok(())) => sfail!("restore-unexpected-error", "restore_savepoint(seq {seq}) failed: {e:?} although the savepoint is valid in the model"),
        }
        Ok(())
    }

    fn op_delete_persistent(&mut self, r: &mut Rec) -> R {
        let ids: Vec<u64> = self.sps.iter().filter_map(|s| s.persistent).collect();
        if ids.is_empty() {
            return Ok(());
        }
        self.ensure_w()?;
        if self.w.as_ref().unwrap().poisoned {
            return Ok(());
        }
        let id = ids[r.idx8(ids.len())];
        let w = self.w.as_mut().unwrap();
        let txn = w.txn.as_ref().unwrap();
        let expect: Result<bool, &str> = if w.dur != Dur::Immediate { Err("ImmediateDurabilityRequired") } else { Ok(w.work.psp.contains_key(&id)) };
        let res = match catch(|| txn.delete_persistent_savepoint(id)) {
            Ok(r) => r,
            Err(p) => sfail!(format!("panic:{}", normalize_sig(&p)), "panic in delete_persistent_savepoint({id}): {p}"),
        };
        tr!(self, "delete_persistent_savepoint({id}) -> {:?}", res.as_ref().map_err(sperr_kind));
        let w = self.w.as_mut().unwrap();
        match (res, expect) {
            (Ok(b), Ok(e)) => {
                sensure!(b == e, "delete-savepoint-result", "delete_persistent_savepoint({id}) returned {b}, model says {e}");
                if b {
                    w.work.psp.remove(&id);
                    w.psp_modified = true;
                    w.structural_ops += 1;
                }
            }
            (Err(SavepointError::Storage(e)), _) => return Err(Stop::Io(format!("delete_persistent_savepoint: {e:?}"))),
            (Err(e), Err(k)) => {
                sensure!(sperr_kind(&e) == k, "delete-savepoint-error", "delete_persistent_savepoint({id}) returned {e:?}, expected {k}");
                self.stats.errors_expected += 1;
            }
            (Ok(b), Err(k)) => sfail!("delete-savepoint-should-fail", "delete_persistent_savepoint({id}) returned Ok({b}), expected {k}"),
            (Err(e), Ok(_)) => sfail!("delete-savepoint-unexpected", "delete_persistent_savepoint({id}) failed: {e:?}"),
        }
        Ok(())
    }

    fn op_drop_ephemeral(&mut self, r: &mut Rec) -> R {
        let cands: Vec<usize> = (0..self.sps.len()).filter(|i| self.sps[*i].handle.is_some()).collect();
        if cands.is_empty() {
            return Ok(());
        }
        let i = cands[r.idx8(cands.len())];
        let h = self.sps[i].handle.take();
        tr!(self, "drop(ephemeral savepoint seq {})", self.sps[i].seq);
        if let Err(p) = catch(|| drop(h)) {
            sfail!(format!("panic:{}", normalize_sig(&p)), "panic while dropping a Savepoint: {p}");
        }
        self.sps[i].invalid = true;
        Ok(())
    }

    // -----------------------------------------------------------------------------------------
    // readers

    fn op_begin_read(&mut self) -> R {
        if self.readers.len() >= self.profile.max_readers || self.surfaced || self.uncertain {
            return Ok(());
        }
        let rt = match self.db().begin_read() {
            Ok(t) => t,
            Err(e) => return Err(Stop::Io(format!("begin_read: {e:?}"))),
        };
        tr!(self, "begin_read() -> reader #{} at commit point {}", self.readers.len(), self.commits.len() - 1);
        self.readers.push(ReaderM {
            rt: Some(rt),
            at: self.commits.len() - 1,
            owned: vec![],
            begun_step: self.step,
            later_commits_freeing: 0,
            later_commits_allocating: 0,
            later_nondurable: 0,
            probes_after: 0,
        });
        Ok(())
    }

    fn op_reader_probe(&mut self, r: &mut Rec, rec: &[u8; 12], take_owned: bool) -> R {
        let live: Vec<usize> = (0..self.readers.len()).filter(|i| self.readers[*i].rt.is_some()).collect();
        if live.is_empty() {
            return Ok(());
        }
        let ri = live[r.idx8(live.len())];
        let snap = self.commits[self.readers[ri].at].clone();
        let names: Vec<&String> = snap.tables.keys().collect();
        {
            // table list of the snapshot
            let rt = self.readers[ri].rt.as_ref().unwrap();
            let n: Vec<String> = io!(rt.list_tables()).map(|h| h.name().to_string()).collect();
            let m: Vec<String> = io!(rt.list_multimap_tables()).map(|h| h.name().to_string()).collect();
            check_lists(&n, &m, &snap.tables, "held read transaction")?;
        }
        if names.is_empty() {
            return Ok(());
        }
        let name = names[r.idx8(names.len())].clone();
        let tm = snap.tables.get(&name).unwrap();
        let def = tm.def();
        let _ = r.u8();
        let tag = u64::from(rec[10]) << 8 | u64::from(rec[11]);
        let universe = self.profile.key_universe;
        let mut op = if def.multi {
            AnyOp::M(decode_mop(r, def.kty, def.vty, &self.cfg, universe.min(6), 120))
        } else {
            AnyOp::T(decode_top(r, def.kty, def.vty, &self.cfg, universe, tag, false))
        };
        if op.mutates() {
            op = if def.multi { AnyOp::M(crate::mmops::MOp::Scan) } else { AnyOp::T(crate::tableops::TOp::Scan) };
        }
        let rt = self.readers[ri].rt.as_ref().unwrap();
        let t = match catch(|| open_ro(rt, &name, def)) {
            Ok(Ok(t)) => t,
            Ok(Err(TableError::Storage(e))) => return Err(Stop::Io(format!("ro open: {e:?}"))),
            Ok(Err(e)) => sfail!("reader-open", "reader #{ri} (snapshot of commit {}) could not open {name:?}: {e:?}", self.readers[ri].at),
            Err(p) => sfail!(format!("panic:{}", normalize_sig(&p)), "panic opening {name:?} in a read transaction: {p}"),
        };
        if take_owned {
            let what = match &op {
                AnyOp::T(crate::tableops::TOp::Range { .. }) | AnyOp::T(crate::tableops::TOp::Get { .. }) | AnyOp::M(crate::mmops::MOp::Get { .. }) => op.clone(),
                AnyOp::M(_) => AnyOp::M(crate::mmops::MOp::Get { k: crate::genr::key(def.kty, r.idx8(universe.min(24)), self.cfg.page_size), c: crate::tableops::Consume::full() }),
                AnyOp::T(_) => AnyOp::T(crate::tableops::TOp::Range { lo: std::ops::Bound::Unbounded, hi: std::ops::Bound::Unbounded, c: crate::tableops::Consume::full() }),
            };
            let res = catch(|| t.take_owned(&what, tm));
            match res {
                Ok(r) => {
                    if let Some(o) = r? {
                        tr!(self, "reader #{ri}: take owned {}", o.describe());
                        self.readers[ri].owned.push(o);
                    }
                }
                Err(p) => sfail!(format!("panic:{}", normalize_sig(&p)), "panic taking an owned iterator/guard: {p}"),
            }
        } else {
            tr!(self, "reader #{ri} (commit {}): {name:?} {op:?}", self.readers[ri].at);
            match catch(|| t.probe(&op, tm)) {
                Ok(r) => r.map_err(|s| prefix_stop(s, &format!("reader #{ri} begun at commit point {} (now {}): ", self.readers[ri].at, self.commits.len() - 1)))?,
                Err(p) => sfail!(format!("panic:{}", normalize_sig(&p)), "panic in a read through a held read transaction: {p}"),
            }
            self.stats.reader_probes += 1;
            self.readers[ri].probes_after += 1;
            self.note_reader_nontrivial(ri);
        }
        Ok(())
    }

    fn note_reader_nontrivial(&mut self, ri: usize) {
        let rd = &self.readers[ri];
        if rd.later_commits_freeing >= 1 && rd.later_commits_allocating >= 1 && rd.later_commits_freeing + rd.later_commits_allocating >= 2 && (self.cfg.cache_size <= 8 * self.cfg.page_size || rd.later_nondurable > 0) {
            let mut h = Fnv::new();
            h.write_u64(rd.at as u64);
            h.write_u64(self.commits.len() as u64);
            h.write_u64(self.commits[rd.at].hash());
            h.write_u64(self.last().hash());
            self.nontrivial.push(h.finish());
        }
    }

    pub fn probe_all_readers(&mut self) -> R {
        for ri in 0..self.readers.len() {
            let snap = self.commits[self.readers[ri].at].clone();
            if let Some(rt) = self.readers[ri].rt.as_ref() {
                for (name, tm) in snap.tables.iter() {
                    let t = match catch(|| open_ro(rt, name, tm.def())) {
                        Ok(Ok(t)) => t,
                        Ok(Err(TableError::Storage(e))) => return Err(Stop::Io(format!("ro open: {e:?}"))),
                        Ok(Err(e)) => sfail!("reader-open", "reader #{ri} (snapshot of commit {}) could not open {name:?}: {e:?}", self.readers[ri].at),
                        Err(p) => sfail!(format!("panic:{}", normalize_sig(&p)), "panic opening {name:?} in a read transaction: {p}"),
                    };
                    match catch(|| t.full(tm)) {
                        Ok(r) => r.map_err(|s| prefix_stop(s, &format!("reader #{ri} begun at commit point {} (now {}), table {name:?}: ", self.readers[ri].at, self.commits.len() - 1)))?,
                        Err(p) => sfail!(format!("panic:{}", normalize_sig(&p)), "panic in a read through a held read transaction: {p}"),
                    }
                }
                self.stats.reader_probes += 1;
                self.note_reader_nontrivial(ri);
            }
        }
        Ok(())
    }

    fn op_owned_step(&mut self, r: &mut Rec) -> R {
        let cands: Vec<usize> = (0..self.readers.len()).filter(|i| !self.readers[*i].owned.is_empty()).collect();
        if cands.is_empty() {
            return Ok(());
        }
        let ri = cands[r.idx8(cands.len())];
        let n = self.readers[ri].owned.len();
        let oi = r.idx8(n);
        let back = r.bool();
        let steps = 1 + r.u8() % 4;
        for _ in 0..steps {
            let at = self.readers[ri].at;
            let o = &mut self.readers[ri].owned[oi];
            let res = catch(|| o.step(back));
            match res {
                Ok(r) => {
                    r.map_err(|s| prefix_stop(s, &format!("owned object of reader #{ri} (commit point {at}): ")))?;
                }
                Err(p) => sfail!(format!("panic:{}", normalize_sig(&p)), "panic consulting an owned iterator/guard: {p}"),
            }
            self.stats.owned_steps += 1;
        }
        self.note_reader_nontrivial(ri);
        Ok(())
    }

    fn op_drop_reader(&mut self, r: &mut Rec) -> R {
        if self.readers.is_empty() {
            return Ok(());
        }
        let ri = r.idx8(self.readers.len());
        let only_handle = r.bool();
        if only_handle && self.readers[ri].rt.is_some() && !self.readers[ri].owned.is_empty() {
            // drop the transaction handle, keep the owned objects alive
            tr!(self, "drop(read transaction handle of reader #{ri}), keeping {} owned objects", self.readers[ri].owned.len());
            self.readers[ri].rt = None;
        } else {
            tr!(self, "drop(reader #{ri} and its owned objects)");
            let rd = self.readers.remove(ri);
            if let Err(p) = catch(|| drop(rd)) {
                sfail!(format!("panic:{}", normalize_sig(&p)), "panic dropping a reader: {p}");
            }
        }
        Ok(())
    }

    // -----------------------------------------------------------------------------------------
    // database-level operations

    fn finish_txn_for_db_op(&mut self) -> R {
        if self.w.is_some() {
            self.commit()?;
        }
        Ok(())
    }

    pub fn drop_all_handles(&mut self) {
        self.readers.clear();
        for sp in &mut self.sps {
            if sp.handle.take().is_some() {
                sp.invalid = true;
            }
        }
    }

    pub fn op_reopen(&mut self) -> R {
        self.finish_txn_for_db_op()?;
        self.drop_all_handles();
        tr!(self, "drop(Database); reopen");
        self.backend.mark(self.d, self.commits.len() - 1, "close");
        let db = self.db.take().unwrap();
        if let Err(p) = catch(|| drop(db)) {
            sfail!(format!("panic:{}", normalize_sig(&p)), "panic dropping the Database: {p}");
        }
        let closes = self.backend.lock().closes;
        sensure!(closes == 1, "close-count", "close() was called {closes} times when the Database was dropped (expected exactly once)");
        let faulty = self.fault_mode && self.backend.lock().fault_fired;
        if !faulty {
            self.d = self.commits.len() - 1;
            self.capture_image("clean close");
        }
        self.backend.mark(self.d, self.commits.len() - 1, "open");
        let b = self.backend.reopen_handle();
        let db = match catch(|| self.cfg.builder().create_with_backend(b)) {
            Ok(Ok(db)) => db,
            Ok(Err(e)) if self.fault_mode => {
                // a failing open must still close the backend exactly once
                let closes = self.backend.lock().closes;
                sensure!(closes == 1, "close-count-failed-open", "close() was called {closes} times for a backend whose open failed with {e:?} (expected exactly once)");
                self.ended_by_failed_open = true;
                return Err(Stop::Io(format!("open: {e:?}")));
            }
            Ok(Err(DatabaseError::Storage(e))) => return Err(Stop::Io(format!("open: {e:?}"))),
            Ok(Err(e)) => sfail!("reopen", "reopening after a clean close failed: {e:?}"),
            Err(p) => sfail!(format!("panic:{}", normalize_sig(&p)), "panic reopening after a clean close: {p}"),
        };
        self.db = Some(db);
        self.surfaced = false;
        self.uncertain = false;
        if faulty {
            // after a storage error the close may not have been clean: the reopened contents
            // must be one commit point of the window, which then becomes the model's present
            let cands: Vec<(usize, Arc<DbState>)> = (self.d..self.commits.len()).map(|j| (j, self.commits[j].clone())).collect();
            let j = crate::crash::match_commit_point(self.db.as_ref().unwrap(), &cands)?;
            self.commits.truncate(j + 1);
            self.d = j;
            // savepoints of commit points that turned out not to exist never existed
            let ever: BTreeSet<u64> = self.commits.iter().flat_map(|c| c.psp.keys().copied()).collect();
            self.sps.retain(|sp| sp.persistent.is_none_or(|id| ever.contains(&id)));
            // ... and the validity of a persistent savepoint is whatever the recovered commit
            // point says: a deletion (or invalidating restore) staged in a commit that failed and
            // turned out not to have happened must be forgotten again
            for sp in &mut self.sps {
                if let Some(id) = sp.persistent {
                    sp.invalid = !self.commits[j].psp.contains_key(&id);
                }
            }
        }
        self.backend.mark(self.d, self.d, "idle");
        self.stats.reopens += 1;
        // all ephemeral savepoints died with the Database
        self.verify_committed()?;
        self.verify_persistent_list()
    }

    pub fn verify_persistent_list(&mut self) -> R {
        let exp: BTreeSet<u64> = self.last().psp.keys().copied().collect();
        let txn = match self.db().begin_write() {
            Ok(t) => t,
            Err(e) => return Err(Stop::Io(format!("begin_write: {e:?}"))),
        };
        let listed: BTreeSet<u64> = io!(txn.list_persistent_savepoints()).collect();
        io!(txn.abort());
        sensure!(listed == exp, "persistent-list", "list_persistent_savepoints() is {listed:?}, model says {exp:?}");
        Ok(())
    }

    fn op_compact(&mut self, r: &mut Rec) -> R {
        self.finish_txn_for_db_op()?;
        // half of the runnable compactions are measured "at rest": clean close + open before
        // (the close trims allocation slack), compact, clean close after
        let at_rest = r.u8() % 2 == 0 && self.last().psp.is_empty() && !self.sps.iter().any(|s| s.handle.is_some()) && self.readers.is_empty();
        if at_rest {
            self.op_reopen()?;
        }
        // (after the reopen: under fault injection it can settle which commit point is current)
        let persistent = !self.last().psp.is_empty();
        let eph_valid = self.sps.iter().any(|s| s.handle.is_some() && !s.invalid);
        let eph_any = self.sps.iter().any(|s| s.handle.is_some());
        let readers = !self.readers.is_empty();
        let at_rest = at_rest && !persistent;
        // With non-durable commits pending the file does not yet hold the data, so its length
        // before the call is not comparable; sizes are compared only when everything is durable
        let all_durable = self.d == self.commits.len() - 1;
        let len_before = self.backend.lock().live.len();
        self.backend.mark(self.d, self.commits.len() - 1, "compact");
        let db = self.db.as_mut().unwrap();
        let res = match catch(|| db.compact()) {
            Ok(r) => r,
            Err(p) => sfail!(format!("panic:{}", normalize_sig(&p)), "panic in compact(): {p}"),
        };
        tr!(self, "compact() -> {res:?}");
        match res {
            Ok(_) => {
                sensure!(!(self.fault_mode && self.surfaced), "write-accepted-after-io-error", "compact() ran although a storage error had been reported and the database was not reopened");
                sensure!(!persistent && !eph_valid && !readers && !eph_any, "compact-not-refused", "compact() ran although persistent savepoints={persistent} ephemeral savepoints={eph_any} readers={readers} exist");
                self.d = self.commits.len() - 1;
                self.capture_image("after compaction");
                self.stats.compactions_ok += 1;
                let len_after = self.backend.lock().live.len();
                if all_durable && len_after > len_before {
                    // informational: allocation slack of the compaction's own commits; a clean
                    // close trims it (see DESIGN.md section 7)
                    self.classes.push("in-flight length larger after compact() (slack, trimmed by close)");
                }
                let fired = self.fault_mode && self.backend.lock().fault_fired;
                if at_rest && !fired {
                    // the notion upstream's regression test uses: lengths of cleanly closed files
                    self.op_reopen()?;
                    let rest_after = self.backend.lock().live.len();
                    if self.fault_mode && self.backend.lock().fault_fired {
                        // the close itself may have been hit by the injected fault: not comparable
                    } else if rest_after > len_before && rest_after <= 2 * len_before && !self.strict {
                        // known finding C13/compact-at-rest-growth-within-doubling: excluded by
                        // construction (counted); anything beyond a doubling is still reported
                        self.excluded_known += 1;
                        self.classes.push("known finding: at-rest growth after compact() within a doubling");
                    } else {
                        let sig = if rest_after <= 2 * len_before { "compact-at-rest-growth-within-doubling" } else { "compact-grew" };
                        sensure!(rest_after <= len_before, sig, "compact() made the cleanly closed file larger: {len_before} bytes before, {rest_after} bytes after");
                    }
                    self.classes.push("compaction with at-rest size comparison");
                }
                self.backend.mark(self.d, self.d, "idle");
                self.verify_committed()?;
            }
            Err(CompactionError::Storage(e)) => return Err(Stop::Io(format!("compact: {e:?}"))),
            Err(_) if self.fault_mode && (self.surfaced || self.uncertain) => {
                // after a reported storage error any refusal is acceptable (C08 only requires that
                // nothing is written); the reason oracle belongs to healthy databases (C13)
                self.backend.mark(self.d, self.commits.len() - 1, "idle");
            }
            Err(e) => {
                let holds = match &e {
                    CompactionError::PersistentSavepointExists => persistent,
                    CompactionError::EphemeralSavepointExists => eph_any,
                    CompactionError::TransactionInProgress => readers || eph_any,
                    _ => false,
                };
                sensure!(holds, "compact-refusal", "compact() refused with {e:?} but that condition does not hold (persistent={persistent}, ephemeral handles={eph_any}, readers={readers})");
                self.stats.compactions_refused += 1;
                self.backend.mark(self.d, self.commits.len() - 1, "idle");
                self.verify_committed()?;
            }
        }
        Ok(())
    }

    fn op_check_integrity(&mut self) -> R {
        self.finish_txn_for_db_op()?;
        let readers = !self.readers.is_empty();
        let eph_any = self.sps.iter().any(|s| s.handle.is_some());
        self.backend.mark(self.d, self.commits.len() - 1, "check_integrity");
        let stale_layout = {
            let g = self.backend.lock();
            header_layout_len(&g.live) != Some(g.live.len() as u64)
        };
        let db = self.db.as_mut().unwrap();
        let res = match catch(|| db.check_integrity()) {
            Ok(r) => r,
            Err(p) => sfail!(format!("panic:{}", normalize_sig(&p)), "panic in check_integrity(): {p}"),
        };
        tr!(self, "check_integrity() -> {res:?}");
        match res {
            Ok(true) => {
                self.d = self.commits.len() - 1;
                self.stats.checks += 1;
                self.backend.mark(self.d, self.d, "idle");
                self.verify_committed()?;
            }
            Ok(false) if stale_layout => sfail!("check-integrity-false-after-unwritten-resize", "check_integrity() returned Ok(false) on a healthy database whose file was resized by a transaction that did not commit (on-disk layout fields stale)"),
            Ok(false) => sfail!("check-integrity-false", "check_integrity() returned Ok(false) on a healthy database"),
            Err(DatabaseError::Storage(e @ (redb::StorageError::Io(_) | redb::StorageError::PreviousIo))) => return Err(Stop::Io(format!("check_integrity: {e:?}"))),
            Err(e) => {
                let s = format!("{e:?}");
                sensure!((readers || eph_any) && s.contains("TransactionInProgress"), "check-integrity-error", "check_integrity() failed on a healthy database: {e:?} (readers={readers}, ephemeral savepoints={eph_any})");
                self.backend.mark(self.d, self.commits.len() - 1, "idle");
            }
        }
        Ok(())
    }

    /// final step of every history: commit what is open, verify, optionally close
    pub fn finish(&mut self) -> R {
        if self.w.is_some() {
            self.commit()?;
        }
        self.probe_all_readers()?;
        for ri in 0..self.readers.len() {
            for oi in 0..self.readers[ri].owned.len() {
                let o = &mut self.readers[ri].owned[oi];
                let mut guard = 0;
                loop {
                    let more = match catch(|| o.step(false)) {
                        Ok(r) => r?,
                        Err(p) => sfail!(format!("panic:{}", normalize_sig(&p)), "panic consulting an owned iterator/guard: {p}"),
                    };
                    guard += 1;
                    if !more || guard > 3 {
                        break;
                    }
                }
            }
        }
        self.verify_committed()?;
        let v = self.backend.monitor_violations();
        sensure!(v.is_empty(), "backend-contract", "backend contract violated: {:?}", &v[..v.len().min(3)]);
        Ok(())
    }

    /// C08: one record under fault injection. Returns Ok(false) when the history cannot continue
    /// (an open failed)
    pub fn exec_fault(&mut self, rec: &[u8; 12]) -> Result<bool, Failure> {
        if self.db.is_none() {
            return Ok(false);
        }
        match self.exec(rec) {
            Ok(()) => Ok(true),
            Err(Stop::Fail(f)) => Err(f),
            Err(Stop::Io(e)) => {
                self.on_io_error(&e)?;
                Ok(self.db.is_some())
            }
        }
    }

    pub fn on_io_error(&mut self, e: &str) -> Result<(), Failure> {
        let fired = self.backend.lock().fault_fired;
        if !fired {
            return Err(Failure::new("unexpected-storage-error", format!("redb reported a storage error although no fault had been injected yet: {e}")));
        }
        tr!(self, "  -> storage error reported: {e}");
        if e.contains("Io(") || e.contains("PreviousIo") {
            if !self.surfaced {
                self.surfaced_count += 1;
            }
            self.surfaced = true;
        }
        // abandon the open write transaction; dropping it must not panic
        if let Some(mut w) = self.w.take() {
            w.held.clear();
            let txn = w.txn.take();
            if let Err(p) = catch(|| drop(txn)) {
                return Err(Failure::new(format!("panic:{}", normalize_sig(&p)), format!("panic while dropping a write transaction after a storage error: {p}")));
            }
            self.backend.mark(self.d, self.commits.len() - 1, "idle");
            let ever: BTreeSet<u64> = self.commits.iter().flat_map(|c| c.psp.keys().copied()).collect();
            self.sps.retain(|sp| sp.persistent.is_none_or(|id| ever.contains(&id)));
        }
        Ok(())
    }

    /// one case in `profile.bulk_one_in` (default twelve) may contain bulk writes
    pub fn set_bulk_from(&mut self, tape: &Tape) {
        let n = self.profile.bulk_one_in.max(2);
        self.bulk_mode = tape.cfg[3] % n == n - 1; // never for a zeroed configuration record
    }

    pub fn run_tape(&mut self, tape: &Tape) -> R {
        self.set_bulk_from(tape);
        for rec in &tape.recs {
            self.exec(rec)?;
        }
        self.finish()
    }
}

fn prefix_stop(s: Stop, p: &str) -> Stop {
    match s {
        Stop::Fail(mut f) => {
            f.msg = format!("{p}{}", f.msg);
            Stop::Fail(f)
        }
        o => o,
    }
}

pub fn check_lists(n: &[String], m: &[String], tables: &Tables, who: &str) -> R {
    let en: Vec<String> = tables.iter().filter(|(_, t)| !t.def().multi).map(|(k, _)| k.clone()).collect();
    let em: Vec<String> = tables.iter().filter(|(_, t)| t.def().multi).map(|(k, _)| k.clone()).collect();
    sensure!(n == en.as_slice(), "list-tables", "{who}: list_tables() returned {n:?}, model says {en:?}");
    sensure!(m == em.as_slice(), "list-multimap-tables", "{who}: list_multimap_tables() returned {m:?}, model says {em:?}");
    Ok(())
}

/// Compare the committed contents visible to a fresh read transaction with `tables`
pub fn verify_db_tables<D: ReadableDatabase>(db: &D, tables: &Tables) -> R {
    let rt = match catch(|| db.begin_read()) {
        Ok(Ok(t)) => t,
        Ok(Err(e)) => return Err(Stop::Io(format!("begin_read: {e:?}"))),
        Err(p) => sfail!(format!("panic:{}", normalize_sig(&p)), "panic in begin_read(): {p}"),
    };
    let res = catch(|| -> R {
        let n: Vec<String> = io!(rt.list_tables()).map(|h| h.name().to_string()).collect();
        let m: Vec<String> = io!(rt.list_multimap_tables()).map(|h| h.name().to_string()).collect();
        check_lists(&n, &m, tables, "fresh read transaction")?;
        for (name, tm) in tables.iter() {
            let t = match open_ro(&rt, name, tm.def()) {
                Ok(t) => t,
                Err(TableError::Storage(e)) => return Err(Stop::Io(format!("ro open: {e:?}"))),
                Err(e) => sfail!("committed-open", "committed table {name:?} cannot be opened as {}: {e:?}", tm.def().label()),
            };
            t.full(tm).map_err(|s| prefix_stop(s, &format!("committed table {name:?}: ")))?;
        }
        Ok(())
    });
    match res {
        Ok(r) => r,
        Err(p) => sfail!(format!("panic:{}", normalize_sig(&p)), "panic while reading committed contents: {p}"),
    }
}

/// File length implied by the layout fields stored in the on-disk super-header
pub fn header_layout_len(image: &[u8]) -> Option<u64> {
    if image.len() < 32 {
        return None;
    }
    let u = |o: usize| u64::from(u32::from_le_bytes(image[o..o + 4].try_into().unwrap()));
    let (page, hdr, max, full, trailing) = (u(12), u(16), u(20), u(24), u(28));
    Some(page * (1 + full * (hdr + max) + if trailing > 0 { hdr + trailing } else { 0 }))
}

/// operation kinds in the order of `Profile::weights` (for hand-built probe tapes)
pub mod kind {
    pub const TABLE_OP: usize = 0;
    pub const COMMIT: usize = 1;
    pub const ABORT: usize = 2;
    pub const BEGIN: usize = 3;
    pub const SP_EPH: usize = 4;
    pub const SP_PERS: usize = 5;
    pub const RESTORE: usize = 6;
    pub const DEL_PERS: usize = 7;
    pub const DROP_EPH: usize = 8;
    pub const BEGIN_READ: usize = 9;
    pub const READER_PROBE: usize = 10;
    pub const TAKE_OWNED: usize = 11;
    pub const DROP_READER: usize = 12;
    pub const REOPEN: usize = 13;
    pub const COMPACT: usize = 14;
    pub const CHECK: usize = 15;
    pub const RENAME: usize = 16;
    pub const DELETE_TABLE: usize = 17;
    pub const LIST: usize = 18;
}

/// smallest selector byte that decodes to `kind` under `profile`
pub fn byte_for_kind(profile: &Profile, kind: usize) -> u8 {
    let w = profile.weights();
    for v in 0..=255u8 {
        let mut r = Rec::new(std::slice::from_ref(&v));
        if r.weighted(&w) == kind {
            return v;
        }
    }
    panic!("harness: kind {kind} has weight 0 in this profile");
}

/// build a tape from (kind, payload) pairs
pub fn build_tape(profile: &Profile, cfg: [u8; 16], ops: &[(usize, &[u8])]) -> Tape {
    let recs = ops
        .iter()
        .map(|(k, payload)| {
            let mut r = [0u8; 12];
            r[0] = byte_for_kind(profile, *k);
            r[1..1 + payload.len()].copy_from_slice(payload);
            r
        })
        .collect();
    Tape { cfg, recs }
}

pub fn decode_cfg(tape: &Tape) -> DbCfg {
    DbCfg::decode(tape.cfg[0], tape.cfg[1], tape.cfg[2])
}

pub fn stop_failure(s: Stop) -> Failure {
    crate::tableops::stop_to_failure(s)
}

#[allow(dead_code)]
fn _t(_: Ty) {}
