//! Type-erased table handles so that the history interpreter can hold tables of different types

use crate::mmops::{MModel, MOp, MStats, mm_apply, mm_full_compare, mm_read_op};
use crate::mv::*;
use crate::tableops::{Consume, OpOutcome, R, Stop, TModel, TOp, TStats, apply_top, bound_ref, full_compare, in_range, read_op};
use crate::{io, sensure, sfail};
use redb::{
    MultimapTable, MultimapTableDefinition, ReadOnlyMultimapTable, ReadOnlyTable, ReadTransaction,
    ReadableTableMetadata, Table, TableDefinition, TableError, WriteTransaction,
};
use std::collections::VecDeque;
use std::ops::Bound;

#[derive(Clone, Copy, PartialEq, Eq, Debug, Hash, PartialOrd, Ord)]
pub struct Def {
    pub multi: bool,
    pub kty: Ty,
    pub vty: Ty,
}

impl Def {
    pub const fn n(kty: Ty, vty: Ty) -> Def {
        Def { multi: false, kty, vty }
    }
    pub const fn m(kty: Ty, vty: Ty) -> Def {
        Def { multi: true, kty, vty }
    }
    pub fn label(&self) -> String {
        format!("{}<{},{}>", if self.multi { "Multimap" } else { "Table" }, self.kty.name(), self.vty.name())
    }
}

pub const DEFS: [Def; 8] = [
    Def::n(Ty::U64, Ty::Bytes),
    Def::n(Ty::Str, Ty::Bytes),
    Def::m(Ty::U64, Ty::Bytes),
    Def::n(Ty::U64, Ty::U64),
    Def::m(Ty::Str, Ty::U64),
    Def::n(Ty::Str, Ty::U64),
    Def::m(Ty::U64, Ty::U64),
    Def::m(Ty::Str, Ty::Bytes),
];

#[derive(Clone, PartialEq, Debug)]
pub enum TableM {
    N { def: Def, data: TModel },
    M { def: Def, data: MModel },
}

impl TableM {
    pub fn new(def: Def) -> TableM {
        if def.multi {
            TableM::M { def, data: MModel::new() }
        } else {
            TableM::N { def, data: TModel::new() }
        }
    }
    pub fn def(&self) -> Def {
        match self {
            TableM::N { def, .. } | TableM::M { def, .. } => *def,
        }
    }
    pub fn entries(&self) -> usize {
        match self {
            TableM::N { data, .. } => data.len(),
            TableM::M { data, .. } => data.values().map(|s| s.len()).sum(),
        }
    }
}

#[derive(Clone, Debug)]
pub enum AnyOp {
    T(TOp),
    M(MOp),
}

impl AnyOp {
    pub fn mutates(&self) -> bool {
        match self {
            AnyOp::T(o) => o.mutates(),
            AnyOp::M(o) => o.mutates(),
        }
    }
}

#[derive(Default)]
pub struct OpCtx {
    pub tstats: TStats,
    pub mstats: MStats,
    pub page: usize,
}

pub trait DynTab {
    fn apply(&mut self, op: &AnyOp, model: &mut TableM, ctx: &mut OpCtx) -> R<OpOutcome>;
    fn full(&self, model: &TableM) -> R;
    fn tree_height(&self) -> R<u32>;
}

struct HeldN<KF: KeyFam, VF: ValFam>(Table<'static, KF::T, VF::T>);
struct HeldM<KF: KeyFam, VF: KeyFam>(MultimapTable<'static, KF::T, VF::T>);

impl<KF: KeyFam, VF: ValFam> DynTab for HeldN<KF, VF> {
    fn apply(&mut self, op: &AnyOp, model: &mut TableM, ctx: &mut OpCtx) -> R<OpOutcome> {
        match (op, model) {
            (AnyOp::T(op), TableM::N { data, .. }) => apply_top::<KF, VF>(&mut self.0, data, op, &mut ctx.tstats),
            _ => panic!("harness: op kind / table kind mismatch"),
        }
    }
    fn full(&self, model: &TableM) -> R {
        match model {
            TableM::N { data, .. } => full_compare::<KF, VF, _>(&self.0, data),
            _ => panic!("harness: table kind mismatch"),
        }
    }
    fn tree_height(&self) -> R<u32> {
        Ok(io!(self.0.stats()).tree_height())
    }
}

impl<KF: KeyFam, VF: KeyFam> DynTab for HeldM<KF, VF> {
    fn apply(&mut self, op: &AnyOp, model: &mut TableM, ctx: &mut OpCtx) -> R<OpOutcome> {
        match (op, model) {
            (AnyOp::M(op), TableM::M { data, def }) => {
                mm_apply::<KF, VF>(&mut self.0, data, op, &mut ctx.mstats, ctx.page, def.vty)?;
                Ok(OpOutcome::default())
            }
            _ => panic!("harness: op kind / table kind mismatch"),
        }
    }
    fn full(&self, model: &TableM) -> R {
        match model {
            TableM::M { data, .. } => mm_full_compare::<KF, VF, _>(&self.0, data),
            _ => panic!("harness: table kind mismatch"),
        }
    }
    fn tree_height(&self) -> R<u32> {
        Ok(io!(self.0.stats()).tree_height())
    }
}

/// # Safety
/// The returned handle borrows `txn` with an erased lifetime: the caller must drop it before the
/// transaction is committed, aborted or dropped.
pub unsafe fn open_held(txn: &WriteTransaction, name: &str, def: Def) -> Result<Box<dyn DynTab>, TableError> {
    let txn: &'static WriteTransaction = unsafe { &*(txn as *const WriteTransaction) };
    fn n<KF: KeyFam, VF: ValFam>(txn: &'static WriteTransaction, name: &str) -> Result<Box<dyn DynTab>, TableError> {
        // TableDefinition borrows the name only for the duration of the call
        let t = txn.open_table(TableDefinition::<KF::T, VF::T>::new(name))?;
        Ok(Box::new(HeldN::<KF, VF>(t)))
    }
    fn m<KF: KeyFam, VF: KeyFam>(txn: &'static WriteTransaction, name: &str) -> Result<Box<dyn DynTab>, TableError> {
        let t = txn.open_multimap_table(MultimapTableDefinition::<KF::T, VF::T>::new(name))?;
        Ok(Box::new(HeldM::<KF, VF>(t)))
    }
    match (def.multi, def.kty, def.vty) {
        (false, Ty::U64, Ty::Bytes) => n::<FU64, FBytes>(txn, name),
        (false, Ty::Str, Ty::Bytes) => n::<FStr, FBytes>(txn, name),
        (false, Ty::U64, Ty::U64) => n::<FU64, FU64>(txn, name),
        (false, Ty::Str, Ty::U64) => n::<FStr, FU64>(txn, name),
        (true, Ty::U64, Ty::Bytes) => m::<FU64, FBytes>(txn, name),
        (true, Ty::Str, Ty::U64) => m::<FStr, FU64>(txn, name),
        (true, Ty::U64, Ty::U64) => m::<FU64, FU64>(txn, name),
        (true, Ty::Str, Ty::Bytes) => m::<FStr, FBytes>(txn, name),
        _ => panic!("harness: def not in menu"),
    }
}

// ---------------------------------------------------------------------------------------------
// read-only side

pub trait OwnedProbe {
    /// consult the held object once more (one step for iterators), comparing with the frozen
    /// expectation; returns false when there is nothing left to consult
    fn step(&mut self, back: bool) -> R<bool>;
    fn describe(&self) -> String;
}

pub trait DynRo {
    fn probe(&self, op: &AnyOp, model: &TableM) -> R;
    fn full(&self, model: &TableM) -> R;
    /// take an owned object (range iterator or guard) that outlives the transaction handle
    fn take_owned(&self, op: &AnyOp, model: &TableM) -> R<Option<Box<dyn OwnedProbe>>>;
}

struct RoN<KF: KeyFam, VF: ValFam>(ReadOnlyTable<KF::T, VF::T>);
struct RoM<KF: KeyFam, VF: KeyFam>(ReadOnlyMultimapTable<KF::T, VF::T>);

struct OwnedRangeProbe<KF: KeyFam, VF: ValFam> {
    it: redb::OwnedRange<KF::T, VF::T>,
    expected: VecDeque<(MV, MV)>,
    what: String,
    done: bool,
}

impl<KF: KeyFam, VF: ValFam> OwnedProbe for OwnedRangeProbe<KF, VF> {
    fn step(&mut self, back: bool) -> R<bool> {
        if self.done {
            return Ok(false);
        }
        let got = if back { self.it.next_back() } else { self.it.next() };
        let exp = if back { self.expected.pop_back() } else { self.expected.pop_front() };
        let what = &self.what;
        match (got, exp) {
            (None, None) => {
                self.done = true;
                Ok(false)
            }
            (Some(Err(e)), _) => Err(Stop::Io(format!("{e:?}"))),
            (Some(Ok((k, v))), Some((ek, ev))) => {
                let gk = KF::from(k.value());
                let gv = VF::from(v.value());
                sensure!(gk == ek, "owned-iter-key", "{what}: resumed owned iterator yielded key {gk:?}, frozen snapshot says {ek:?}");
                sensure!(gv == ev, "owned-iter-value", "{what}: resumed owned iterator yielded value {gv:?} for {gk:?}, frozen snapshot says {ev:?}");
                Ok(true)
            }
            (Some(Ok((k, _))), None) => {
                sfail!("owned-iter-extra", "{what}: owned iterator yielded {:?} beyond its frozen snapshot", KF::from(k.value()))
            }
            (None, Some((ek, _))) => sfail!("owned-iter-missing", "{what}: owned iterator ended but its frozen snapshot still has {ek:?}"),
        }
    }
    fn describe(&self) -> String {
        format!("{} ({} left)", self.what, self.expected.len())
    }
}

struct OwnedGuardProbe<VF: ValFam> {
    g: redb::OwnedAccessGuard<VF::T>,
    expected: MV,
    what: String,
}

impl<VF: ValFam> OwnedProbe for OwnedGuardProbe<VF> {
    fn step(&mut self, _back: bool) -> R<bool> {
        let got = VF::from(self.g.value());
        sensure!(got == self.expected, "owned-guard", "{}: owned guard now reads {got:?}, frozen snapshot says {:?}", self.what, self.expected);
        Ok(true)
    }
    fn describe(&self) -> String {
        self.what.clone()
    }
}

struct OwnedMmValueProbe<VF: KeyFam> {
    it: redb::OwnedMultimapValue<VF::T>,
    expected: VecDeque<MV>,
    what: String,
    done: bool,
}

impl<VF: KeyFam> OwnedProbe for OwnedMmValueProbe<VF> {
    fn step(&mut self, back: bool) -> R<bool> {
        if self.done {
            return Ok(false);
        }
        let what = &self.what;
        sensure!(self.it.len() == self.expected.len() as u64, "owned-mm-len", "{what}: owned multimap value len() {} but frozen snapshot has {} left", self.it.len(), self.expected.len());
        let got = if back { self.it.next_back() } else { self.it.next() };
        let exp = if back { self.expected.pop_back() } else { self.expected.pop_front() };
        match (got, exp) {
            (None, None) => {
                self.done = true;
                Ok(false)
            }
            (Some(Err(e)), _) => Err(Stop::Io(format!("{e:?}"))),
            (Some(Ok(v)), Some(ev)) => {
                let gv = VF::from(v.value());
                sensure!(gv == ev, "owned-mm-value", "{what}: resumed owned multimap value yielded {gv:?}, frozen snapshot says {ev:?}");
                Ok(true)
            }
            (Some(Ok(v)), None) => sfail!("owned-mm-extra", "{what}: yielded {:?} beyond its frozen snapshot", VF::from(v.value())),
            (None, Some(ev)) => sfail!("owned-mm-missing", "{what}: ended but frozen snapshot still has {ev:?}"),
        }
    }
    fn describe(&self) -> String {
        format!("{} ({} left)", self.what, self.expected.len())
    }
}

impl<KF: KeyFam, VF: ValFam> DynRo for RoN<KF, VF> {
    fn probe(&self, op: &AnyOp, model: &TableM) -> R {
        match (op, model) {
            (AnyOp::T(op), TableM::N { data, .. }) => read_op::<KF, VF, _>(&self.0, data, op),
            _ => panic!("harness: op kind / table kind mismatch"),
        }
    }
    fn full(&self, model: &TableM) -> R {
        match model {
            TableM::N { data, .. } => full_compare::<KF, VF, _>(&self.0, data),
            _ => panic!("harness: table kind mismatch"),
        }
    }
    fn take_owned(&self, op: &AnyOp, model: &TableM) -> R<Option<Box<dyn OwnedProbe>>> {
        let TableM::N { data, .. } = model else { panic!("harness: table kind mismatch") };
        match op {
            AnyOp::T(TOp::Range { lo, hi, .. }) => {
                let it = io!(self.0.range_owned((bound_ref::<KF>(lo), bound_ref::<KF>(hi))));
                let expected: VecDeque<(MV, MV)> = data
                    .iter()
                    .filter(|(k, _)| in_range(k, lo, hi))
                    .map(|(k, v)| (k.clone(), v.clone()))
                    .collect();
                Ok(Some(Box::new(OwnedRangeProbe::<KF, VF> { it, expected, what: format!("range_owned({lo:?},{hi:?})"), done: false })))
            }
            AnyOp::T(TOp::Get { k }) => {
                let g = io!(self.0.get_owned(KF::to(k)));
                match (g, data.get(k)) {
                    (None, None) => Ok(None),
                    (Some(g), Some(ev)) => {
                        let mut p = OwnedGuardProbe::<VF> { g, expected: ev.clone(), what: format!("get_owned({k:?})") };
                        p.step(false)?;
                        Ok(Some(Box::new(p)))
                    }
                    (g, e) => sfail!("get_owned", "get_owned({k:?}) presence {} but frozen snapshot presence {}", g.is_some(), e.is_some()),
                }
            }
            _ => Ok(None),
        }
    }
}

impl<KF: KeyFam, VF: KeyFam> DynRo for RoM<KF, VF> {
    fn probe(&self, op: &AnyOp, model: &TableM) -> R {
        match (op, model) {
            (AnyOp::M(op), TableM::M { data, .. }) => mm_read_op::<KF, VF, _>(&self.0, data, op),
            _ => panic!("harness: op kind / table kind mismatch"),
        }
    }
    fn full(&self, model: &TableM) -> R {
        match model {
            TableM::M { data, .. } => mm_full_compare::<KF, VF, _>(&self.0, data),
            _ => panic!("harness: table kind mismatch"),
        }
    }
    fn take_owned(&self, op: &AnyOp, model: &TableM) -> R<Option<Box<dyn OwnedProbe>>> {
        let TableM::M { data, .. } = model else { panic!("harness: table kind mismatch") };
        match op {
            AnyOp::M(MOp::Get { k, .. }) => {
                let it = io!(self.0.get_owned(KF::to(k)));
                let expected: VecDeque<MV> = data.get(k).map(|s| s.iter().cloned().collect()).unwrap_or_default();
                Ok(Some(Box::new(OwnedMmValueProbe::<VF> { it, expected, what: format!("multimap get_owned({k:?})"), done: false })))
            }
            _ => Ok(None),
        }
    }
}

pub fn open_ro(rt: &ReadTransaction, name: &str, def: Def) -> Result<Box<dyn DynRo>, TableError> {
    fn n<KF: KeyFam, VF: ValFam>(rt: &ReadTransaction, name: &str) -> Result<Box<dyn DynRo>, TableError> {
        Ok(Box::new(RoN::<KF, VF>(rt.open_table(TableDefinition::<KF::T, VF::T>::new(name))?)))
    }
    fn m<KF: KeyFam, VF: KeyFam>(rt: &ReadTransaction, name: &str) -> Result<Box<dyn DynRo>, TableError> {
        Ok(Box::new(RoM::<KF, VF>(rt.open_multimap_table(MultimapTableDefinition::<KF::T, VF::T>::new(name))?)))
    }
    match (def.multi, def.kty, def.vty) {
        (false, Ty::U64, Ty::Bytes) => n::<FU64, FBytes>(rt, name),
        (false, Ty::Str, Ty::Bytes) => n::<FStr, FBytes>(rt, name),
        (false, Ty::U64, Ty::U64) => n::<FU64, FU64>(rt, name),
        (false, Ty::Str, Ty::U64) => n::<FStr, FU64>(rt, name),
        (true, Ty::U64, Ty::Bytes) => m::<FU64, FBytes>(rt, name),
        (true, Ty::Str, Ty::U64) => m::<FStr, FU64>(rt, name),
        (true, Ty::U64, Ty::U64) => m::<FU64, FU64>(rt, name),
        (true, Ty::Str, Ty::Bytes) => m::<FStr, FBytes>(rt, name),
        _ => panic!("harness: def not in menu"),
    }
}

pub fn consume_default() -> Consume {
    Consume::full()
}

#[allow(dead_code)]
fn _unused(_: Bound<u8>) {}
