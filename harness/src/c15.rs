//! C15: built-in key types order correctly and separators are valid (engine `types`)

use crate::driver::{Acc, CaseOut, Check, Failure, Plan, Tier, catch, normalize_sig};
use crate::tape::{Fnv, Rec, Tape};
use redb::{Key, Value};
use serde_json::{Value as J, json};
use std::cmp::Ordering;
use std::fmt::Debug;

pub struct C15;

/// One key type with an owned Rust mirror whose `Ord` is the reference order
pub trait Dom {
    type O: Ord + Clone + Debug;
    const NAME: &'static str;
    const VARIABLE: bool;
    fn generate(r: &mut Rec) -> Self::O;
    fn enc(o: &Self::O) -> Vec<u8>;
    fn dec(b: &[u8]) -> Self::O;
    fn compare(a: &[u8], b: &[u8]) -> Ordering;
    fn separator(a: &[u8], b: &[u8]) -> Vec<u8>;
    fn small() -> Vec<Self::O> {
        vec![]
    }
}

// ---- generators of leaf values ----------------------------------------------------------------

// multi-byte characters come in groups that share leading bytes and first differ in a middle
// continuation byte
const STR_ATOMS: [&str; 14] = ["", "a", "b", "ab", "\u{e9}", "\u{e8}", "\u{20ac}", "\u{202c}", "\u{20ad}", "\u{10348}", "\u{10308}", "\u{20348}", "\u{7f}", "\u{80}"];
const BYTE_ATOMS: [u8; 5] = [0x00, 0x01, 0x7f, 0x80, 0xff];

fn gen_str(r: &mut Rec) -> String {
    let n = (r.u8() % 6) as usize;
    let mut s = String::new();
    // shared prefix group
    match r.u8() % 5 {
        0 => {}
        1 => s.push_str("a"),
        2 => s.push_str("key/\u{e9}"),
        3 => s.push_str("\u{20ac}\u{20ac}"),
        _ => s.push_str("\u{10348}x"),
    }
    for _ in 0..n {
        s.push_str(STR_ATOMS[(r.u8() as usize) % STR_ATOMS.len()]);
    }
    s
}

fn gen_bytes(r: &mut Rec) -> Vec<u8> {
    let n = (r.u8() % 6) as usize;
    let mut v = vec![];
    match r.u8() % 4 {
        0 => {}
        1 => v.push(0xff),
        2 => v.extend_from_slice(&[0x00, 0x00]),
        _ => v.extend_from_slice(&[0x80, 0x7f, 0x01]),
    }
    for _ in 0..n {
        v.push(BYTE_ATOMS[(r.u8() as usize) % BYTE_ATOMS.len()]);
    }
    v
}

macro_rules! gen_int {
    ($name:ident, $t:ty) => {
        fn $name(r: &mut Rec) -> $t {
            let sel = r.u8() % 12;
            let raw = (u128::from(r.u32()) << 96 | u128::from(r.u32()) << 64 | u128::from(r.u32()) << 32 | u128::from(r.u32())) as $t;
            match sel {
                0 => 0 as $t,
                1 => 1 as $t,
                2 => <$t>::MAX,
                3 => <$t>::MIN,
                4 => <$t>::MAX - 1,
                5 => <$t>::MIN + 1,
                6 => (0 as $t).wrapping_sub(1),
                7 => (raw as u8) as $t,
                8 => ((raw as u8) as $t).wrapping_shl(8),
                9 => (1 as $t).wrapping_shl((raw as u8 & 0x7f) as u32),
                _ => raw,
            }
        }
    };
}
gen_int!(gen_u8, u8);
gen_int!(gen_u16, u16);
gen_int!(gen_u32, u32);
gen_int!(gen_u64, u64);
gen_int!(gen_u128, u128);
gen_int!(gen_i8, i8);
gen_int!(gen_i16, i16);
gen_int!(gen_i32, i32);
gen_int!(gen_i64, i64);
gen_int!(gen_i128, i128);

fn gen_char(r: &mut Rec) -> char {
    const CS: [char; 10] = ['\0', 'a', '\u{7f}', '\u{80}', '\u{e9}', '\u{7ff}', '\u{800}', '\u{d7ff}', '\u{e000}', '\u{10348}'];
    let sel = r.u8();
    if sel < 200 {
        CS[(sel as usize) % CS.len()]
    } else if sel < 210 {
        char::MAX
    } else {
        char::from_u32(r.u32() % 0x110000).unwrap_or('\u{fffd}')
    }
}

// ---- domains ------------------------------------------------------------------------------------

macro_rules! dom {
    ($dom:ident, $name:expr, $k:ty, $o:ty, $var:expr, $generate:expr, |$ov:ident| $to_self:expr, |$sv:ident| $to_owned:expr, $small:expr) => {
        pub struct $dom;
        impl Dom for $dom {
            type O = $o;
            const NAME: &'static str = $name;
            const VARIABLE: bool = $var;
            fn generate(r: &mut Rec) -> $o {
                $generate(r)
            }
            fn enc($ov: &$o) -> Vec<u8> {
                let s: <$k as Value>::SelfType<'_> = $to_self;
                let bytes = <$k as Value>::as_bytes(&s);
                let r: &[u8] = bytes.as_ref();
                r.to_vec()
            }
            fn dec(b: &[u8]) -> $o {
                let $sv = <$k as Value>::from_bytes(b);
                $to_owned
            }
            fn compare(a: &[u8], b: &[u8]) -> Ordering {
                <$k as Key>::compare(a, b)
            }
            fn separator(a: &[u8], b: &[u8]) -> Vec<u8> {
                <$k as Key>::separator(a, b).into_owned()
            }
            fn small() -> Vec<$o> {
                $small
            }
        }
    };
}

fn small_strs() -> Vec<String> {
    // all strings of length <= 3 over the atom set
    let atoms = ["a", "b", "\u{e9}", "\u{20ac}", "\u{202c}", "\u{10348}", "\u{10308}", "\u{20348}"];
    let mut out = vec![String::new()];
    let mut layer = vec![String::new()];
    for _ in 0..3 {
        let mut next = vec![];
        for s in &layer {
            for a in atoms {
                next.push(format!("{s}{a}"));
            }
        }
        out.extend(next.iter().cloned());
        layer = next;
    }
    out
}

fn small_bytes(maxlen: usize) -> Vec<Vec<u8>> {
    let mut out = vec![vec![]];
    let mut layer = vec![vec![]];
    for _ in 0..maxlen {
        let mut next = vec![];
        for s in &layer {
            for a in BYTE_ATOMS {
                let mut v: Vec<u8> = s.clone();
                v.push(a);
                next.push(v);
            }
        }
        out.extend(next.iter().cloned());
        layer = next;
    }
    out
}

dom!(DU8, "u8", u8, u8, false, gen_u8, |o| *o, |s| s, (0..=255u8).collect());
dom!(DI8, "i8", i8, i8, false, gen_i8, |o| *o, |s| s, (i8::MIN..=i8::MAX).collect());
dom!(DU16, "u16", u16, u16, false, gen_u16, |o| *o, |s| s, vec![0, 1, 255, 256, 257, 0x7fff, 0x8000, u16::MAX]);
dom!(DI16, "i16", i16, i16, false, gen_i16, |o| *o, |s| s, vec![i16::MIN, -256, -255, -1, 0, 1, 255, 256, i16::MAX]);
dom!(DU32, "u32", u32, u32, false, gen_u32, |o| *o, |s| s, vec![0, 1, 255, 256, 65535, 65536, 0x7fff_ffff, 0x8000_0000, u32::MAX]);
dom!(DI32, "i32", i32, i32, false, gen_i32, |o| *o, |s| s, vec![i32::MIN, -65536, -1, 0, 1, 65536, i32::MAX]);
dom!(DU64, "u64", u64, u64, false, gen_u64, |o| *o, |s| s, vec![0, 1, 255, 256, 1 << 32, (1 << 32) + 1, u64::MAX >> 1, 1 << 63, u64::MAX]);
dom!(DI64, "i64", i64, i64, false, gen_i64, |o| *o, |s| s, vec![i64::MIN, -(1 << 32), -1, 0, 1, 1 << 32, i64::MAX]);
dom!(DU128, "u128", u128, u128, false, gen_u128, |o| *o, |s| s, vec![0, 1, 1 << 64, (1 << 64) - 1, u128::MAX >> 1, 1 << 127, u128::MAX]);
dom!(DI128, "i128", i128, i128, false, gen_i128, |o| *o, |s| s, vec![i128::MIN, -(1 << 64), -1, 0, 1, 1 << 64, i128::MAX]);
dom!(DBool, "bool", bool, bool, false, |r: &mut Rec| r.bool(), |o| *o, |s| s, vec![false, true]);
dom!(DChar, "char", char, char, false, gen_char, |o| *o, |s| s, vec!['\0', 'a', '\u{7f}', '\u{80}', '\u{7ff}', '\u{800}', '\u{d7ff}', '\u{e000}', '\u{ffff}', '\u{10000}', char::MAX]);
dom!(DUnit, "()", (), (), false, |_r: &mut Rec| (), |_o| (), |_s| (), vec![()]);
dom!(DStr, "&str", &'static str, String, true, gen_str, |o| o.as_str(), |s| s.to_string(), small_strs());
dom!(DString, "String", String, String, true, gen_str, |o| o.clone(), |s| s, small_strs().into_iter().take(40).collect());
dom!(DBytes, "&[u8]", &'static [u8], Vec<u8>, true, gen_bytes, |o| o.as_slice(), |s| s.to_vec(), small_bytes(4));
dom!(DArr3, "&[u8;3]", &'static [u8; 3], [u8; 3], false, |r: &mut Rec| [BYTE_ATOMS[r.u8() as usize % 5], BYTE_ATOMS[r.u8() as usize % 5], r.u8()], |o| o, |s| *s, small_bytes(3).into_iter().filter(|v| v.len() == 3).map(|v| [v[0], v[1], v[2]]).collect());
dom!(DArrU16, "[u16;3]", [u16; 3], [u16; 3], false, |r: &mut Rec| [gen_u16(r), gen_u16(r), gen_u16(r)], |o| *o, |s| s, vec![[0, 0, 0], [0, 0, 1], [0, 1, 0], [1, 0, 0], [0, 256, 0], [255, 0, 0], [256, 0, 0], [u16::MAX, 0, 0], [0, u16::MAX, u16::MAX]]);
dom!(DArrStr2, "[&str;2]", [&'static str; 2], [String; 2], true, |r: &mut Rec| [gen_str(r), gen_str(r)], |o| [o[0].as_str(), o[1].as_str()], |s| [s[0].to_string(), s[1].to_string()], {
    let ss: Vec<String> = small_strs().into_iter().take(31).collect();
    let mut v = vec![];
    for a in &ss {
        for b in &ss {
            v.push([a.clone(), b.clone()]);
        }
    }
    v
});
dom!(DArrBytes3, "[&[u8];3]", [&'static [u8]; 3], [Vec<u8>; 3], true, |r: &mut Rec| [gen_bytes(r), gen_bytes(r), gen_bytes(r)], |o| [o[0].as_slice(), o[1].as_slice(), o[2].as_slice()], |s| [s[0].to_vec(), s[1].to_vec(), s[2].to_vec()], vec![]);
dom!(DOptU32, "Option<u32>", Option<u32>, Option<u32>, false, |r: &mut Rec| if r.u8() % 4 == 0 { None } else { Some(gen_u32(r)) }, |o| *o, |s| s, vec![None, Some(0), Some(1), Some(256), Some(u32::MAX)]);
dom!(DOptStr, "Option<&str>", Option<&'static str>, Option<String>, true, |r: &mut Rec| if r.u8() % 4 == 0 { None } else { Some(gen_str(r)) }, |o| o.as_deref(), |s| s.map(|x| x.to_string()), {
    let mut v: Vec<Option<String>> = vec![None];
    v.extend(small_strs().into_iter().take(156).map(Some));
    v
});
dom!(DOptOptBytes, "Option<Option<&[u8]>>", Option<Option<&'static [u8]>>, Option<Option<Vec<u8>>>, true, |r: &mut Rec| match r.u8() % 5 { 0 => None, 1 => Some(None), _ => Some(Some(gen_bytes(r))) }, |o| o.as_ref().map(|i| i.as_deref()), |s| s.map(|i| i.map(|x| x.to_vec())), {
    let mut v: Vec<Option<Option<Vec<u8>>>> = vec![None, Some(None)];
    v.extend(small_bytes(2).into_iter().map(|b| Some(Some(b))));
    v
});
dom!(DOptArrStr2, "Option<[&str;2]>", Option<[&'static str; 2]>, Option<[String; 2]>, true, |r: &mut Rec| if r.u8() % 5 == 0 { None } else { Some([gen_str(r), gen_str(r)]) }, |o| o.as_ref().map(|a| [a[0].as_str(), a[1].as_str()]), |s| s.map(|a| [a[0].to_string(), a[1].to_string()]), vec![]);
dom!(DTup1, "(&str,)", (&'static str,), (String,), true, |r: &mut Rec| (gen_str(r),), |o| (o.0.as_str(),), |s| (s.0.to_string(),), vec![]);
dom!(DTupU8Str, "(u8,&str)", (u8, &'static str), (u8, String), true, |r: &mut Rec| (gen_u8(r) % 3, gen_str(r)), |o| (o.0, o.1.as_str()), |s| (s.0, s.1.to_string()), {
    let mut v = vec![];
    for a in [0u8, 1, 255] {
        for s in small_strs().into_iter().take(31) {
            v.push((a, s));
        }
    }
    v
});
dom!(DTupStrU64, "(&str,u64)", (&'static str, u64), (String, u64), true, |r: &mut Rec| (gen_str(r), gen_u64(r)), |o| (o.0.as_str(), o.1), |s| (s.0.to_string(), s.1), {
    let mut v = vec![];
    for s in small_strs().into_iter().take(31) {
        for a in [0u64, 1, 256, u64::MAX] {
            v.push((s.clone(), a));
        }
    }
    v
});
dom!(DTup3, "(&str,&[u8],i32)", (&'static str, &'static [u8], i32), (String, Vec<u8>, i32), true, |r: &mut Rec| (gen_str(r), gen_bytes(r), gen_i32(r)), |o| (o.0.as_str(), o.1.as_slice(), o.2), |s| (s.0.to_string(), s.1.to_vec(), s.2), vec![]);
dom!(DTup4Fixed, "(u8,u16,u32,u64)", (u8, u16, u32, u64), (u8, u16, u32, u64), false, |r: &mut Rec| (gen_u8(r) % 2, gen_u16(r) % 3, gen_u32(r), gen_u64(r)), |o| *o, |s| s, vec![]);
dom!(DTupStrOptBytes, "(&str,Option<&[u8]>)", (&'static str, Option<&'static [u8]>), (String, Option<Vec<u8>>), true, |r: &mut Rec| (gen_str(r), if r.u8() % 4 == 0 { None } else { Some(gen_bytes(r)) }), |o| (o.0.as_str(), o.1.as_deref()), |s| (s.0.to_string(), s.1.map(|x| x.to_vec())), {
    let mut v = vec![];
    for s in small_strs().into_iter().take(6) {
        v.push((s.clone(), None));
        for b in small_bytes(2) {
            v.push((s.clone(), Some(b)));
        }
    }
    v
});
dom!(DTupStrStr, "(&str,&str)", (&'static str, &'static str), (String, String), true, |r: &mut Rec| (gen_str(r), gen_str(r)), |o| (o.0.as_str(), o.1.as_str()), |s| (s.0.to_string(), s.1.to_string()), vec![]);
dom!(DTup4Var, "(&str,u8,&[u8],&str)", (&'static str, u8, &'static [u8], &'static str), (String, u8, Vec<u8>, String), true, |r: &mut Rec| (gen_str(r), gen_u8(r) % 2, gen_bytes(r), gen_str(r)), |o| (o.0.as_str(), o.1, o.2.as_slice(), o.3.as_str()), |s| (s.0.to_string(), s.1, s.2.to_vec(), s.3.to_string()), vec![]);

pub const N_DOMS: usize = 33;

#[derive(Default)]
struct PairStats {
    nontrivial: Vec<u64>,
    shortened: u64,
    pairs: u64,
    near: u64,
}

fn common_prefix(a: &[u8], b: &[u8]) -> usize {
    a.iter().zip(b).take_while(|(x, y)| x == y).count()
}

fn check_pair<D: Dom>(a: &D::O, b: &D::O, st: &mut PairStats) -> Result<(), Failure> {
    let name = D::NAME;
    st.pairs += 1;
    let (ea, eb) = (D::enc(a), D::enc(b));
    let got = match catch(|| D::compare(&ea, &eb)) {
        Ok(o) => o,
        Err(p) => return Err(Failure::new(format!("panic:{}", normalize_sig(&p)), format!("{name}: compare panicked on encodings of {a:?} and {b:?}: {p}"))),
    };
    let exp = a.cmp(b);
    if got != exp {
        return Err(Failure::new("compare-order", format!("{name}: compare(enc({a:?}), enc({b:?})) = {got:?} but the values order {exp:?}")));
    }
    let rev = D::compare(&eb, &ea);
    if rev != exp.reverse() {
        return Err(Failure::new("compare-antisymmetry", format!("{name}: compare is not antisymmetric on {a:?}, {b:?}: {got:?} vs {rev:?}")));
    }
    // round trip
    let da = match catch(|| D::dec(&ea)) {
        Ok(v) => v,
        Err(p) => return Err(Failure::new(format!("panic:{}", normalize_sig(&p)), format!("{name}: from_bytes panicked on the encoding of {a:?}: {p}"))),
    };
    if &da != a {
        return Err(Failure::new("round-trip", format!("{name}: from_bytes(as_bytes({a:?})) = {da:?}")));
    }
    if D::enc(&da) != ea {
        return Err(Failure::new("round-trip-bytes", format!("{name}: as_bytes(from_bytes(x)) != x for x = encoding of {a:?}")));
    }
    // separator for the ordered pair
    let (lo, hi, elo, ehi) = match exp {
        Ordering::Less => (a, b, &ea, &eb),
        Ordering::Greater => (b, a, &eb, &ea),
        Ordering::Equal => return Ok(()),
    };
    let s = match catch(|| D::separator(elo, ehi)) {
        Ok(s) => s,
        Err(p) => return Err(Failure::new(format!("panic:{}", normalize_sig(&p)), format!("{name}: separator panicked for {lo:?} < {hi:?}: {p}"))),
    };
    if s.len() > elo.len() {
        return Err(Failure::new("separator-longer", format!("{name}: separator of {lo:?} < {hi:?} has {} bytes, left has {}", s.len(), elo.len())));
    }
    // valid encoding of the same type: decodes without panicking and re-encodes to itself
    let ds = match catch(|| D::dec(&s)) {
        Ok(v) => v,
        Err(p) => return Err(Failure::new("separator-invalid-encoding", format!("{name}: separator {s:02x?} of {lo:?} < {hi:?} is not a valid encoding (from_bytes panicked: {p})"))),
    };
    if D::enc(&ds) != s {
        return Err(Failure::new("separator-invalid-encoding", format!("{name}: separator {s:02x?} of {lo:?} < {hi:?} does not re-encode to itself (decodes to {ds:?})")));
    }
    let c1 = match catch(|| D::compare(elo, &s)) {
        Ok(o) => o,
        Err(p) => return Err(Failure::new("separator-invalid-encoding", format!("{name}: compare(left, separator) panicked for {lo:?} < {hi:?}, separator {s:02x?}: {p}"))),
    };
    let c2 = match catch(|| D::compare(&s, ehi)) {
        Ok(o) => o,
        Err(p) => return Err(Failure::new("separator-invalid-encoding", format!("{name}: compare(separator, right) panicked for {lo:?} < {hi:?}, separator {s:02x?}: {p}"))),
    };
    if c1 == Ordering::Greater {
        return Err(Failure::new("separator-below-left", format!("{name}: separator {ds:?} sorts below left {lo:?} (right {hi:?})")));
    }
    if c2 != Ordering::Less {
        return Err(Failure::new("separator-not-below-right", format!("{name}: separator {ds:?} does not sort below right {hi:?} (left {lo:?})")));
    }
    // the decoded separator must agree with the value order too
    if !(lo <= &ds && &ds < hi) {
        return Err(Failure::new("separator-value-order", format!("{name}: decoded separator {ds:?} is not in [{lo:?}, {hi:?})")));
    }
    if s.len() < elo.len() {
        st.shortened += 1;
    }
    let cp = common_prefix(elo, ehi);
    if cp >= 1 && (D::VARIABLE || elo.len() != ehi.len()) {
        let mut h = Fnv::new();
        h.write_str(name);
        h.write(elo);
        h.write(&[0xfe]);
        h.write(ehi);
        st.nontrivial.push(h.finish());
    }
    Ok(())
}

fn check_triple<D: Dom>(r: &mut Rec, st: &mut PairStats) -> Result<(), Failure> {
    let a = D::generate(r);
    let mut b = D::generate(r);
    let c = D::generate(r);
    // bias: sometimes make b a close relative of a (same value)
    if r.u8() % 8 == 0 {
        b = a.clone();
    }
    // integer-like domains: c becomes a near relative of a (one or two bits of the encoding
    // flipped), so that pairs tie on most bytes and the deciding byte is anywhere
    let mut c = c;
    if matches!(D::NAME, "u8" | "u16" | "u32" | "u64" | "u128" | "i8" | "i16" | "i32" | "i64" | "i128" | "[u16;3]" | "&[u8;3]") {
        let m = r.u8();
        if m >= 96 {
            let mut e = D::enc(&a);
            let bits = e.len() * 8;
            let bit = (r.u8() as usize) % bits;
            e[bit / 8] ^= 1 << (bit % 8);
            if m >= 200 {
                let bit = (r.u8() as usize) % bits;
                e[bit / 8] ^= 1 << (bit % 8);
            }
            c = D::dec(&e);
            st.near += 1;
        }
    }
    check_pair::<D>(&a, &b, st)?;
    check_pair::<D>(&b, &c, st)?;
    check_pair::<D>(&a, &c, st)?;
    // transitivity on the byte-level comparison
    let (ea, eb, ec) = (D::enc(&a), D::enc(&b), D::enc(&c));
    let (ab, bc, ac) = (D::compare(&ea, &eb), D::compare(&eb, &ec), D::compare(&ea, &ec));
    if ab != Ordering::Greater && bc != Ordering::Greater && ac == Ordering::Greater {
        return Err(Failure::new("transitivity", format!("{}: {a:?} <= {b:?} <= {c:?} but compare({a:?},{c:?}) = Greater", D::NAME)));
    }
    Ok(())
}

fn exhaustive<D: Dom>(st: &mut PairStats) -> Result<u64, Failure> {
    let vals = D::small();
    let mut n = 0u64;
    for a in &vals {
        for b in &vals {
            check_pair::<D>(a, b, st)?;
            n += 1;
        }
    }
    Ok(n)
}

macro_rules! for_dom {
    ($i:expr, $f:ident, $($arg:expr),*) => {
        match $i {
            0 => $f::<DU8>($($arg),*), 1 => $f::<DI8>($($arg),*), 2 => $f::<DU16>($($arg),*), 3 => $f::<DI16>($($arg),*),
            4 => $f::<DU32>($($arg),*), 5 => $f::<DI32>($($arg),*), 6 => $f::<DU64>($($arg),*), 7 => $f::<DI64>($($arg),*),
            8 => $f::<DU128>($($arg),*), 9 => $f::<DI128>($($arg),*), 10 => $f::<DBool>($($arg),*), 11 => $f::<DChar>($($arg),*),
            12 => $f::<DUnit>($($arg),*), 13 => $f::<DStr>($($arg),*), 14 => $f::<DString>($($arg),*), 15 => $f::<DBytes>($($arg),*),
            16 => $f::<DArr3>($($arg),*), 17 => $f::<DArrU16>($($arg),*), 18 => $f::<DArrStr2>($($arg),*), 19 => $f::<DArrBytes3>($($arg),*),
            20 => $f::<DOptU32>($($arg),*), 21 => $f::<DOptStr>($($arg),*), 22 => $f::<DOptOptBytes>($($arg),*), 23 => $f::<DOptArrStr2>($($arg),*),
            24 => $f::<DTup1>($($arg),*), 25 => $f::<DTupU8Str>($($arg),*), 26 => $f::<DTupStrU64>($($arg),*), 27 => $f::<DTup3>($($arg),*),
            28 => $f::<DTup4Fixed>($($arg),*), 29 => $f::<DTupStrOptBytes>($($arg),*), 30 => $f::<DTupStrStr>($($arg),*), 31 => $f::<DTup4Var>($($arg),*),
            _ => $f::<DStr>($($arg),*),
        }
    };
}

fn dom_name(i: usize) -> &'static str {
    fn nm<D: Dom>() -> &'static str {
        D::NAME
    }
    for_dom!(i, nm,)
}

// weights: variable-width and composite domains get most of the cases
const DOM_WEIGHT: [u32; N_DOMS] = [1, 1, 1, 1, 1, 1, 1, 1, 1, 1, 1, 2, 1, 10, 4, 8, 2, 2, 10, 6, 2, 8, 5, 6, 3, 8, 6, 6, 2, 8, 8, 6, 4];

impl Check for C15 {
    fn id(&self) -> &'static str {
        "C15"
    }
    fn rule(&self) -> String {
        "each tape record generates one triple (a,b,c) of values of one of 33 built-in key types (integers of every width/sign, bool, char, (), &str, String, &[u8], &[u8;3], [u16;3], [&str;2], [&[u8];3], Option<u32>, Option<&str>, Option<Option<&[u8]>>, Option<[&str;2]>, tuples of arity 1-4 mixing fixed and variable elements) with generators biased to extremes, equal prefixes, empty values and 1-4-byte UTF-8 boundaries; for every pair: K::compare on the encodings == Ord of the Rust values, antisymmetry, from_bytes(as_bytes(v)) == v and re-encoding identity, and for a<b the separator s: len(s) <= len(enc a), from_bytes(s) does not panic and re-encodes to s, compare(a,s) != Greater, compare(s,b) == Less, decoded s in [a,b); transitivity on each triple. Exhaustive stage: all ordered pairs of the small domains (all u8/i8, all strings of length <= 3 over {a,b,e-acute,U+20AC,U+202C,U+10348,U+10308,U+20348} (characters that share leading bytes and first differ in a middle continuation byte), all byte strings of length <= 4 over {00,01,7f,80,ff}, and 2-element arrays/tuples/Options over subsets of those). Non-trivial: a<b pair whose encodings share a non-empty prefix in a variable-width type or differ in length; distinct by (type, both encodings).".into()
    }
    fn assumptions(&self) -> Vec<String> {
        vec!["uuid/chrono key types are feature-gated and not covered".into(), "the reference order is Rust's Ord on the mirrored owned value (numeric, scalar value for char, lexicographic for str/slices/arrays/tuples, None < Some)".into()]
    }
    fn fuzz_runs(&self) -> u64 {
        1_200_000
    }
    fn plan(&self, tier: Tier) -> Plan {
        Plan { cases: tier.pick(100_000, 3_000_000), max_recs: 64, max_shrink_iters: 5000, workers: 16 }
    }
    fn run(&self, tape: &Tape, want_sample: bool) -> Result<CaseOut, Failure> {
        let mut st = PairStats::default();
        let mut names = vec![];
        for rec in &tape.recs {
            let mut r = Rec::new_extended(rec);
            let d = r.weighted(&DOM_WEIGHT);
            if want_sample && names.len() < 6 {
                names.push(dom_name(d));
            }
            for_dom!(d, check_triple, &mut r, &mut st)?;
        }
        let mut out = CaseOut { evals: st.pairs.max(1), ..Default::default() };
        out.class_n("pairs checked", st.pairs);
        out.class_n("integer triples with a near relative (1-2 bits of the encoding flipped)", st.near);
        out.class_n("separators shorter than the left key", st.shortened);
        out.nontrivial = st.nontrivial;
        if want_sample {
            out.sample = Some(json!({"triples": tape.recs.len(), "first_types": names}));
        }
        Ok(out)
    }
    fn extra(&self, _tier: Tier, _seed: u64, acc: &mut Acc) -> Vec<(Failure, Option<Tape>)> {
        let mut st = PairStats::default();
        let mut total = 0u64;
        let mut per = serde_json::Map::new();
        for d in 0..N_DOMS {
            match catch(|| for_dom!(d, exhaustive, &mut st)) {
                Ok(Ok(n)) => {
                    total += n;
                    if n > 0 {
                        per.insert(dom_name(d).to_string(), json!(n));
                    }
                }
                Ok(Err(f)) => return vec![(f, None)],
                Err(p) => return vec![(Failure::new(format!("harness-panic:{}", normalize_sig(&p)), format!("panic in exhaustive stage: {p}")), None)],
            }
        }
        acc.evaluations += total;
        for s in st.nontrivial {
            acc.nontrivial.insert(s);
        }
        acc.extra.insert("exhaustive_small_domain_pairs".into(), json!(total));
        acc.extra.insert("exhaustive_pairs_per_type".into(), J::Object(per));
        acc.extra.insert("exhaustive_note".into(), json!("the small domains listed in 'rule' are enumerated completely (all ordered pairs); the random stage is a sample"));
        vec![]
    }
    fn render(&self, tape: &Tape) -> J {
        let v: Vec<String> = tape
            .recs
            .iter()
            .map(|rec| {
                let mut r = Rec::new_extended(rec);
                let d = r.weighted(&DOM_WEIGHT);
                fn show<D: Dom>(r: &mut Rec) -> String {
                    let a = D::generate(r);
                    let b = D::generate(r);
                    let c = D::generate(r);
                    format!("{}: {a:?} | {b:?} | {c:?}", D::NAME)
                }
                for_dom!(d, show, &mut r)
            })
            .collect();
        json!({"triples": v})
    }
}
