//! Drivers: seeded proptest search on 16 workers, shrinking, replay, evidence, known findings.

use crate::tape::{CFG_LEN, REC_LEN, Tape};
use proptest::prelude::*;
use proptest::test_runner::{Config, RngAlgorithm, TestCaseError, TestError, TestRng, TestRunner};
use serde_json::{Value, json};
use std::cell::{Cell, RefCell};
use std::collections::{BTreeMap, HashSet};
use std::panic::{AssertUnwindSafe, catch_unwind};
use std::sync::Mutex;
use std::sync::atomic::{AtomicBool, AtomicU64, Ordering};
use std::time::Instant;

#[derive(Copy, Clone, Debug, PartialEq, Eq)]
pub enum Tier {
    Quick,
    Thorough,
}
impl Tier {
    pub fn name(self) -> &'static str {
        match self {
            Tier::Quick => "quick",
            Tier::Thorough => "thorough",
        }
    }
    pub fn pick<T>(self, q: T, t: T) -> T {
        match self {
            Tier::Quick => q,
            Tier::Thorough => t,
        }
    }
}

#[derive(Default)]
pub struct CaseOut {
    /// evaluations performed by this case (>= 1; crash states, fault points, alterations...)
    pub evals: u64,
    /// signatures of the distinct non-trivial (sub-)cases this case contained
    pub nontrivial: Vec<u64>,
    /// class labels with counts (generator health)
    pub classes: Vec<(&'static str, u64)>,
    /// decoded, readable rendering (only when asked)
    pub sample: Option<Value>,
    /// number of sub-cases excluded because they are listed known findings
    pub excluded_known: u64,
}

impl CaseOut {
    pub fn class(&mut self, name: &'static str) {
        self.classes.push((name, 1));
    }
    pub fn class_n(&mut self, name: &'static str, n: u64) {
        if n > 0 {
            self.classes.push((name, n));
        }
    }
}

#[derive(Debug, Clone)]
pub struct Failure {
    /// short signature (stable across runs) used to match known findings
    pub signature: String,
    pub msg: String,
    pub detail: Value,
}

impl Failure {
    pub fn new(sig: impl Into<String>, msg: impl Into<String>) -> Self {
        Failure {
            signature: sig.into(),
            msg: msg.into(),
            detail: Value::Null,
        }
    }
    pub fn with(mut self, detail: Value) -> Self {
        self.detail = detail;
        self
    }
}

#[macro_export]
macro_rules! vfail {
    ($sig:expr, $($arg:tt)*) => {
        return Err($crate::driver::Failure::new($sig, format!($($arg)*)))
    };
}

#[macro_export]
macro_rules! vensure {
    ($cond:expr, $sig:expr, $($arg:tt)*) => {
        if !($cond) {
            return Err($crate::driver::Failure::new($sig, format!($($arg)*)));
        }
    };
}

pub struct Plan {
    pub cases: u64,
    pub max_recs: usize,
    pub max_shrink_iters: u32,
    pub workers: usize,
}

/// Aggregated evidence
#[derive(Default)]
pub struct Acc {
    pub evaluations: u64,
    pub cases: u64,
    pub nontrivial: HashSet<u64>,
    pub classes: BTreeMap<String, u64>,
    pub samples: Vec<Value>,
    pub excluded_known: u64,
    pub extra: BTreeMap<String, Value>,
    pub exhaustive: Option<bool>,
}

impl Acc {
    pub fn absorb(&mut self, out: CaseOut) {
        self.cases += 1;
        self.evaluations += out.evals.max(1);
        for s in out.nontrivial {
            self.nontrivial.insert(s);
        }
        for (c, n) in out.classes {
            *self.classes.entry(c.to_string()).or_default() += n;
        }
        self.excluded_known += out.excluded_known;
        if let Some(s) = out.sample
            && self.samples.len() < 4
        {
            self.samples.push(s);
        }
    }
    pub fn merge(&mut self, o: Acc) {
        self.cases += o.cases;
        self.evaluations += o.evaluations;
        self.nontrivial.extend(o.nontrivial);
        for (c, n) in o.classes {
            *self.classes.entry(c).or_default() += n;
        }
        for s in o.samples {
            if self.samples.len() < 6 {
                self.samples.push(s);
            }
        }
        self.excluded_known += o.excluded_known;
        for (k, v) in o.extra {
            self.extra.insert(k, v);
        }
    }
}

pub trait Check: Send + Sync {
    fn id(&self) -> &'static str;
    fn level(&self) -> &'static str {
        "exploration"
    }
    fn rule(&self) -> String;
    fn assumptions(&self) -> Vec<String> {
        vec![]
    }
    fn plan(&self, tier: Tier) -> Plan;
    /// Run one case decoded from the tape. Must be a pure function of the tape and the code.
    fn run(&self, tape: &Tape, want_sample: bool) -> Result<CaseOut, Failure>;
    /// Readable rendering of the decoded case for the replay file
    fn render(&self, tape: &Tape) -> Value {
        json!({"tape": tape.to_hex()})
    }
    /// Run the random stage in child processes (one per worker): a process abort inside the code
    /// under test (double panic) then costs one case instead of the whole check
    fn isolated(&self) -> bool {
        false
    }
    /// In isolated mode: is a worker process killed by a signal while running a case a violation
    /// (an abort during valid API use) or merely "reported abnormally" (C12: damaged input)?
    fn abort_is_violation(&self) -> bool {
        true
    }
    /// Total libFuzzer executions in the thorough tier (0 = no coverage-guided stage)
    fn fuzz_runs(&self) -> u64 {
        0
    }
    /// Enumerated / auxiliary stages (exhaustive small domains, known-finding probes, corpus).
    /// Returns failures found (with an optional tape)
    fn extra(&self, _tier: Tier, _seed: u64, _acc: &mut Acc) -> Vec<(Failure, Option<Tape>)> {
        vec![]
    }
}

// ---------------------------------------------------------------------------------------------
// panic capture

thread_local! {
    static QUIET: Cell<bool> = const { Cell::new(false) };
    static LAST_PANIC: RefCell<Option<String>> = const { RefCell::new(None) };
}

pub fn install_panic_hook() {
    let default = std::panic::take_hook();
    std::panic::set_hook(Box::new(move |info| {
        let loc = info
            .location()
            .map(|l| format!("{}:{}", l.file(), l.line()))
            .unwrap_or_default();
        let msg = if let Some(s) = info.payload().downcast_ref::<&str>() {
            (*s).to_string()
        } else if let Some(s) = info.payload().downcast_ref::<String>() {
            s.clone()
        } else {
            "<non-string panic>".to_string()
        };
        let quiet = (QUIET.with(|q| q.get()) || std::env::var_os("VERIF_QUIET_PANICS").is_some()) && std::env::var_os("VERIF_LOUD").is_none();
        LAST_PANIC.with(|p| {
            // keep the FIRST panic of a case (later ones are usually consequences)
            let mut p = p.borrow_mut();
            if p.is_none() {
                *p = Some(format!("{msg} @ {loc}"));
            }
        });
        if !quiet {
            default(info);
        }
    }));
}

/// Mark the current thread as "panics are captured, do not print"
pub fn set_quiet(q: bool) {
    QUIET.with(|c| c.set(q));
}

/// Run f, converting a panic into Err(message @ location)
pub fn catch<T>(f: impl FnOnce() -> T) -> Result<T, String> {
    LAST_PANIC.with(|p| *p.borrow_mut() = None);
    let prev = QUIET.with(|q| q.replace(true));
    let r = catch_unwind(AssertUnwindSafe(f));
    QUIET.with(|q| q.set(prev));
    match r {
        Ok(v) => Ok(v),
        Err(_) => Err(LAST_PANIC
            .with(|p| p.borrow_mut().take())
            .unwrap_or_else(|| "panic (no message)".into())),
    }
}

/// Take the panic message recorded on this thread by the hook (for panics caught elsewhere)
pub fn take_last_panic() -> Option<String> {
    LAST_PANIC.with(|p| p.borrow_mut().take())
}

/// strip numbers so that panic signatures are stable
pub fn normalize_sig(s: &str) -> String {
    let mut out = String::new();
    let mut last_digit = false;
    for c in s.chars() {
        if c.is_ascii_digit() {
            if !last_digit {
                out.push('#');
            }
            last_digit = true;
        } else {
            last_digit = false;
            out.push(c);
        }
    }
    if out.len() > 160 {
        out.truncate(160);
    }
    out
}

pub fn run_caught(check: &dyn Check, tape: &Tape, want_sample: bool) -> Result<CaseOut, Failure> {
    match catch(|| check.run(tape, want_sample)) {
        Ok(r) => r,
        Err(p) => {
            if p.contains("/repo/") || p.contains("redb-3.0.0") {
                Err(Failure::new(
                    format!("panic:{}", normalize_sig(&p)),
                    format!("panic inside redb during valid API use: {p}"),
                ))
            } else {
                Err(Failure::new(
                    format!("harness-panic:{}", normalize_sig(&p)),
                    format!("panic in the harness itself (machinery bug, not a verdict): {p}"),
                ))
            }
        }
    }
}

/// classify a caught panic message of an auxiliary stage by where it was raised
pub fn panic_failure(p: String, ctx: &str) -> Failure {
    if p.contains("/repo/") || p.contains("redb-3.0.0") {
        Failure::new(format!("panic:{}", normalize_sig(&p)), format!("{ctx}: panic inside redb during valid API use: {p}"))
    } else {
        Failure::new(format!("harness-panic:{}", normalize_sig(&p)), format!("{ctx}: panic in the harness itself (machinery bug, not a verdict): {p}"))
    }
}

// ---------------------------------------------------------------------------------------------
// known findings

pub struct Known {
    pub entries: Vec<(String, String, String, String)>, // property, status, signature, what
}

impl Known {
    pub fn load() -> Known {
        let path = format!("{}/known_findings.json", verif_root());
        let mut entries = vec![];
        if let Ok(s) = std::fs::read_to_string(&path)
            && let Ok(v) = serde_json::from_str::<Value>(&s)
            && let Some(arr) = v.get("findings").and_then(|f| f.as_array())
        {
            for e in arr {
                let g = |k: &str| {
                    e.get(k)
                        .and_then(|x| x.as_str())
                        .unwrap_or_default()
                        .to_string()
                };
                entries.push((g("property"), g("status"), g("signature"), g("what")));
            }
        }
        Known { entries }
    }
    pub fn is_known(&self, prop: &str, sig: &str) -> Option<&str> {
        self.entries
            .iter()
            .find(|e| e.0 == prop && e.1 == "known" && e.2 == sig)
            .map(|e| e.3.as_str())
    }
}

pub fn verif_root() -> String {
    std::env::var("VERIF_ROOT").unwrap_or_else(|_| "/verif".to_string())
}

// ---------------------------------------------------------------------------------------------
// coverage-guided stage

/// Delta-debugging over records, then per-byte zeroing, keeping the failure signature.
pub fn minimise_tape(check: &dyn Check, tape: &Tape, sig: &str, max_runs: u32) -> Tape {
    let mut best = tape.clone();
    let mut runs = 0u32;
    let mut still = |t: &Tape, runs: &mut u32| -> bool {
        *runs += 1;
        matches!(run_caught(check, t, false), Err(f) if f.signature == sig)
    };
    let mut chunk = (best.recs.len() / 2).max(1);
    loop {
        let mut i = 0;
        let mut removed = false;
        while i < best.recs.len() && runs < max_runs {
            let mut cand = best.clone();
            let end = (i + chunk).min(cand.recs.len());
            cand.recs.drain(i..end);
            if still(&cand, &mut runs) {
                best = cand;
                removed = true;
            } else {
                i += chunk;
            }
        }
        if runs >= max_runs || (chunk == 1 && !removed) {
            break;
        }
        if chunk > 1 {
            chunk /= 2;
        }
    }
    for i in 0..CFG_LEN {
        if best.cfg[i] != 0 && runs < max_runs {
            let mut cand = best.clone();
            cand.cfg[i] = 0;
            if still(&cand, &mut runs) {
                best = cand;
            }
        }
    }
    for r in 0..best.recs.len() {
        for b in 0..REC_LEN {
            if best.recs[r][b] != 0 && runs < max_runs {
                let mut cand = best.clone();
                cand.recs[r][b] = 0;
                if still(&cand, &mut runs) {
                    best = cand;
                }
            }
        }
    }
    best
}

/// Build /verif/fuzz (cargo-fuzz, nightly, coverage instrumentation but no AddressSanitizer: every
/// case allocates and frees several 1 MiB images, which ASan's quarantine and shadow poisoning
/// slow down about 100-fold -- measured 0.4 vs 49 executions/s per job for C04 -- and redb's only
/// unsafe code is the SIMD part of its XXH3 and the pread/pwrite file backend, which the harness
/// does not use) against /repo's working tree and run the single `tape` target for this check
/// with a fresh corpus directory. The semantic oracle is inside the target
/// (same `run` as the random stage); a violation is reported through the replay file the target
/// writes. A timeout/OOM inside libFuzzer is inconclusive (exit 2), never a violation.
fn fuzz_stage(check: &dyn Check, seed: u64, plan: &Plan, corpus: &[(String, Tape)], acc: &mut Acc, failures: &mut Vec<(Failure, Option<Tape>)>) -> i32 {
    use std::process::Command;
    let root = verif_root();
    let jobs = 16u64;
    let runs_per_job = (check.fuzz_runs() / jobs).max(1);
    let build = Command::new("cargo")
        .args(["+nightly", "fuzz", "build", "-s", "none", "--fuzz-dir", &format!("{root}/fuzz"), "tape"])
        .current_dir(format!("{root}/harness"))
        .env("RUSTFLAGS", "--cfg redb_verif")
        .env("CARGO_NET_OFFLINE", "true")
        .output();
    let built = matches!(&build, Ok(o) if o.status.success());
    if !built {
        let why = match build {
            Ok(o) => String::from_utf8_lossy(&o.stderr).lines().rev().take(12).collect::<Vec<_>>().join(" | "),
            Err(e) => e.to_string(),
        };
        println!("FUZZ-STAGE-SKIPPED property={} the fuzz target did not build: {}", check.id(), why);
        acc.extra.insert("fuzz".into(), json!({"status": "not run: cargo +nightly fuzz build failed", "detail": why}));
        return 2;
    }
    let work = format!("{root}/scratch/fuzz-{}-{}", check.id(), std::process::id());
    let cdir = format!("{work}/corpus");
    let _ = std::fs::remove_dir_all(&work);
    if std::fs::create_dir_all(&cdir).is_err() {
        acc.extra.insert("fuzz".into(), json!({"status": "not run: cannot create scratch directory"}));
        return 2;
    }
    // starting corpus: the committed regression tapes plus deterministic random tapes of full length
    for (i, (_, t)) in corpus.iter().enumerate() {
        let _ = std::fs::write(format!("{cdir}/reg-{i}"), t.to_bytes());
    }
    {
        let mut rng = TestRng::from_seed(RngAlgorithm::ChaCha, &seed_bytes(seed, 0, 9));
        use proptest::prelude::RngCore;
        for i in 0..48 {
            let n = CFG_LEN + REC_LEN * (1 + (i * plan.max_recs) / 48);
            let mut b = vec![0u8; n];
            rng.fill_bytes(&mut b);
            let _ = std::fs::write(format!("{cdir}/rnd-{i}"), b);
        }
    }
    let bin = format!("{root}/fuzz/target/x86_64-unknown-linux-gnu/release/tape");
    let t0 = Instant::now();
    let out = Command::new(&bin)
        .arg(&cdir)
        .args([
            format!("-runs={runs_per_job}"),
            format!("-seed={}", (seed % 0xffff_fffe) + 1),
            "-len_control=0".to_string(),
            format!("-max_len={}", CFG_LEN + REC_LEN * plan.max_recs),
            format!("-jobs={jobs}"),
            format!("-workers={jobs}"),
            format!("-artifact_prefix={work}/art-"),
            "-print_final_stats=1".to_string(),
            "-timeout=120".to_string(),
            "-rss_limit_mb=6000".to_string(),
        ])
        .current_dir(&work)
        .env("VERIF_FUZZ_ID", check.id())
        .env("VERIF_ROOT", &root)
        .output();
    let wall = t0.elapsed().as_secs_f64();
    let mut execs = 0u64;
    let mut cov = 0u64;
    let mut corpus_final = 0u64;
    let mut violation_lines = vec![];
    let mut harness_err = false;
    let mut inconclusive = vec![];
    let mut deadly = vec![];
    if let Ok(rd) = std::fs::read_dir(&work) {
        for e in rd.flatten() {
            let name = e.file_name().to_string_lossy().to_string();
            if !(name.starts_with("fuzz-") && name.ends_with(".log")) {
                continue;
            }
            let text = String::from_utf8_lossy(&std::fs::read(e.path()).unwrap_or_default()).to_string();
            let mut job_violation = false;
            for l in text.lines() {
                if let Some(r) = l.strip_prefix("stat::number_of_executed_units:") {
                    execs += r.trim().parse::<u64>().unwrap_or(0);
                }
                if l.starts_with('#') && l.contains(" cov: ") {
                    let f: Vec<&str> = l.split_whitespace().collect();
                    if let Some(i) = f.iter().position(|x| *x == "cov:") {
                        cov = cov.max(f.get(i + 1).and_then(|x| x.parse().ok()).unwrap_or(0));
                    }
                    if let Some(i) = f.iter().position(|x| *x == "corp:") {
                        corpus_final = corpus_final.max(f.get(i + 1).and_then(|x| x.split('/').next()).and_then(|x| x.parse().ok()).unwrap_or(0));
                    }
                }
                if l.starts_with("VIOLATION property=") || (l.starts_with("  ") && l.contains(": ") && !job_violation && false) {
                    violation_lines.push(l.to_string());
                    job_violation = true;
                }
                if l.starts_with("HARNESS-ERROR") {
                    harness_err = true;
                    inconclusive.push(l.chars().take(300).collect::<String>());
                }
                if l.contains("ERROR: libFuzzer: timeout") || l.contains("ERROR: libFuzzer: out-of-memory") {
                    inconclusive.push(l.to_string());
                }
                if l.contains("ERROR: libFuzzer: deadly signal") && !job_violation {
                    deadly.push(name.clone());
                }
            }
        }
    }
    let status_ok = matches!(&out, Ok(o) if o.status.success());
    // a violation found by the fuzzer: re-run the saved tape in this process to get the failure record
    let mut found = 0;
    for l in &violation_lines {
        if let Some(path) = l.split("replay=").nth(1) {
            if let Ok(text) = std::fs::read_to_string(path.trim()) {
                if let Ok(v) = serde_json::from_str::<Value>(&text) {
                    if let Some(t) = v.get("tape").and_then(|t| t.as_str()).and_then(Tape::from_hex) {
                        match run_caught(check, &t, false) {
                            Err(f0) => {
                                let t = minimise_tape(check, &t, &f0.signature, 3000);
                                let mut f = run_caught(check, &t, false).err().unwrap_or(f0);
                                f.msg = format!("[found by libFuzzer, minimised by record/byte deletion] {}", f.msg);
                                failures.push((f, Some(t)));
                            }
                            Ok(_) => failures.push((Failure::new("unstable", format!("libFuzzer reported a violation that does not reproduce in-process: {l}")), Some(t))),
                        }
                        found += 1;
                    }
                }
            }
        }
    }
    // the process died without the target's own VIOLATION line (abort inside the code under test)
    if found == 0 && !deadly.is_empty() {
        if let Ok(rd) = std::fs::read_dir(&work) {
            for e in rd.flatten() {
                let name = e.file_name().to_string_lossy().to_string();
                if name.starts_with("art-crash-") {
                    let t = Tape::from_bytes(&std::fs::read(e.path()).unwrap_or_default());
                    failures.push((Failure::new("abort-under-fuzzer", "the process was killed by a signal (abort) while running this tape under libFuzzer"), Some(t)));
                    break;
                }
            }
        }
    }
    acc.extra.insert(
        "fuzz".into(),
        json!({"engine": "libFuzzer (cargo-fuzz 0.13, nightly), one target, oracle in target", "executions": execs, "jobs": jobs, "runs_per_job": runs_per_job,
            "edges_covered_max_over_jobs": cov, "corpus_units_max_over_jobs": corpus_final, "starting_corpus": corpus.len() + 48, "wall_s": wall,
            "violations_reported": violation_lines.len(), "inconclusive": inconclusive, "exit_ok": status_ok}),
    );
    let _ = std::fs::remove_dir_all(&work);
    if harness_err || (!inconclusive.is_empty() && failures.is_empty()) {
        println!("FUZZ-STAGE-INCONCLUSIVE property={} {}", check.id(), inconclusive.join(" | "));
        return 2;
    }
    0
}

// ---------------------------------------------------------------------------------------------
// main entry

pub struct RunResult {
    pub exit: i32,
}

fn seed_bytes(seed: u64, worker: u64, stage: u64) -> [u8; 32] {
    let mut b = [0u8; 32];
    b[..8].copy_from_slice(&seed.to_le_bytes());
    b[8..16].copy_from_slice(&worker.to_le_bytes());
    b[16..24].copy_from_slice(&stage.to_le_bytes());
    b[24..32].copy_from_slice(&0x5eed_5eed_5eed_5eedu64.to_le_bytes());
    b
}

/// Decode and re-run a tape for the replay file. In isolated mode this happens in a child process,
/// because re-running a failing tape may abort the process
fn render_safely(check: &dyn Check, tier: Tier, t: &Tape) -> Value {
    if check.isolated() || std::env::var("VERIF_ISOLATE").is_ok() {
        let Ok(exe) = std::env::current_exe() else {
            return json!({"render": "unavailable"});
        };
        match std::process::Command::new(exe).arg(check.id()).arg(tier.name()).arg("--render").arg(t.to_hex()).stderr(std::process::Stdio::null()).output() {
            Ok(o) if o.status.success() => serde_json::from_slice(&o.stdout).unwrap_or_else(|_| json!({"render": "unparsable"})),
            Ok(o) => json!({"render": format!("the rendering process ended with {:?} (re-running this tape kills the process)", o.status)}),
            Err(e) => json!({"render": format!("cannot spawn: {e}")}),
        }
    } else {
        catch(|| check.render(t)).unwrap_or_else(|p| json!({"render_panicked": p}))
    }
}

pub fn write_replay(check: &dyn Check, seed: u64, tier: Tier, tape: Option<&Tape>, f: &Failure) -> String {
    let dir = format!("{}/replays", verif_root());
    let _ = std::fs::create_dir_all(&dir);
    let h = tape.map(|t| t.hash64()).unwrap_or_else(|| {
        let mut h = crate::tape::Fnv::new();
        h.write_str(&f.signature);
        h.write_str(&f.msg);
        h.finish()
    });
    let path = format!("{dir}/{}-{}-{:016x}.json", check.id(), seed, h);
    let v = json!({
        "property": check.id(),
        "seed": seed,
        "tier": tier.name(),
        "tape": tape.map(|t| t.to_hex()),
        "decoded": tape.map(|t| render_safely(check, tier, t)),
        "signature": f.signature,
        "mismatch": f.msg,
        "detail": f.detail,
    });
    let _ = std::fs::write(&path, serde_json::to_string_pretty(&v).unwrap());
    path
}

pub fn replay_file(check: &dyn Check, path: &str) -> i32 {
    let s = match std::fs::read_to_string(path) {
        Ok(s) => s,
        Err(e) => {
            eprintln!("cannot read {path}: {e}");
            return 2;
        }
    };
    let v: Value = match serde_json::from_str(&s) {
        Ok(v) => v,
        Err(e) => {
            eprintln!("bad replay file: {e}");
            return 2;
        }
    };
    let Some(tape) = v.get("tape").and_then(|t| t.as_str()).and_then(Tape::from_hex) else {
        eprintln!("replay file has no tape (enumerated-stage failure): re-run the check instead");
        return 2;
    };
    if let Ok(v) = catch(|| check.render(&tape)) {
        println!("decoded: {}", serde_json::to_string_pretty(&v).unwrap());
    }
    match run_caught(check, &tape, true) {
        Ok(_) => {
            println!("replay: property held on this tape");
            0
        }
        Err(f) => {
            println!("replay: {}: {}", f.signature, f.msg);
            println!("VIOLATION property={} replay={}", check.id(), path);
            1
        }
    }
}

/// Replays committed regression tapes under corpus/<id>/ (they must pass on a correct tree)
fn corpus_tapes(id: &str) -> Vec<(String, Tape)> {
    let dir = format!("{}/corpus/{}", verif_root(), id);
    let mut out = vec![];
    if let Ok(rd) = std::fs::read_dir(&dir) {
        let mut names: Vec<_> = rd.filter_map(|e| e.ok()).map(|e| e.path()).collect();
        names.sort();
        for p in names {
            if let Ok(s) = std::fs::read_to_string(&p) {
                let tape = if p.extension().is_some_and(|e| e == "json") {
                    serde_json::from_str::<Value>(&s)
                        .ok()
                        .and_then(|v| v.get("tape").and_then(|t| t.as_str()).and_then(Tape::from_hex))
                } else {
                    Tape::from_hex(s.trim())
                };
                if let Some(t) = tape {
                    out.push((p.display().to_string(), t));
                }
            }
        }
    }
    out
}

fn case_out_json(o: &CaseOut) -> Value {
    json!({
        "evals": o.evals,
        "nontrivial": o.nontrivial.iter().map(|x| format!("{x:x}")).collect::<Vec<_>>(),
        "classes": o.classes.iter().map(|(c, n)| json!([c, n])).collect::<Vec<_>>(),
        "sample": o.sample,
        "excluded": o.excluded_known,
    })
}

fn absorb_json(acc: &mut Acc, v: &Value) {
    acc.cases += 1;
    acc.evaluations += v["evals"].as_u64().unwrap_or(1).max(1);
    if let Some(a) = v["nontrivial"].as_array() {
        for x in a {
            if let Some(h) = x.as_str().and_then(|s| u64::from_str_radix(s, 16).ok()) {
                acc.nontrivial.insert(h);
            }
        }
    }
    if let Some(a) = v["classes"].as_array() {
        for c in a {
            if let (Some(name), Some(n)) = (c[0].as_str(), c[1].as_u64()) {
                *acc.classes.entry(name.to_string()).or_default() += n;
            }
        }
    }
    acc.excluded_known += v["excluded"].as_u64().unwrap_or(0);
    if !v["sample"].is_null() && acc.samples.len() < 4 {
        acc.samples.push(v["sample"].clone());
    }
}

/// Child process of an isolated check: one worker's share of the random stage, reporting over
/// stdout lines (@CASE before, @DONE after each case; @FAILRAW / @FAIL; @END)
pub fn run_child(check: &dyn Check, tier: Tier, seed: u64, w: usize, skip: u64) -> i32 {
    use std::io::Write;
    let plan = check.plan(tier);
    let workers = plan.workers.max(1);
    let my_cases = plan.cases / workers as u64 + if (w as u64) < plan.cases % workers as u64 { 1 } else { 0 };
    let out = std::io::stdout();
    let say = |line: String| {
        let mut o = out.lock();
        let _ = writeln!(o, "{line}");
        let _ = o.flush();
    };
    if my_cases == 0 {
        say("@END".into());
        return 0;
    }
    let cfg = Config { cases: my_cases as u32, failure_persistence: None, max_shrink_iters: plan.max_shrink_iters, max_global_rejects: 0, ..Config::default() };
    let rng = TestRng::from_seed(RngAlgorithm::ChaCha, &seed_bytes(seed, w as u64, 2));
    let mut runner = TestRunner::new_with_rng(cfg, rng);
    let strat = (any::<[u8; CFG_LEN]>(), prop::collection::vec(any::<[u8; REC_LEN]>(), 0..=plan.max_recs));
    let started = Cell::new(0u64);
    let failed = Cell::new(false);
    let samples = Cell::new(0u32);
    let res = runner.run(&strat, |(cfg, recs)| {
        let tape = Tape { cfg, recs };
        if !failed.get() {
            let n = started.get();
            started.set(n + 1);
            if n < skip {
                return Ok(());
            }
        }
        say(format!("@CASE {}", tape.to_hex()));
        let want_sample = !failed.get() && samples.get() < 2;
        match run_caught(check, &tape, want_sample) {
            Ok(o) => {
                if !failed.get() {
                    if o.sample.is_some() {
                        samples.set(samples.get() + 1);
                    }
                    say(format!("@DONE {}", case_out_json(&o)));
                }
                Ok(())
            }
            Err(f) => {
                if !failed.get() {
                    failed.set(true);
                    say(format!("@FAILRAW {}", json!({"tape": tape.to_hex(), "signature": f.signature, "msg": f.msg, "detail": f.detail})));
                }
                Err(TestCaseError::fail(f.msg))
            }
        }
    });
    if let Err(TestError::Fail(_, (cfg, recs))) = res {
        let tape = Tape { cfg, recs };
        say(format!("@CASE {}", tape.to_hex()));
        if let Err(f) = run_caught(check, &tape, false) {
            say(format!("@FAIL {}", json!({"tape": tape.to_hex(), "signature": f.signature, "msg": f.msg, "detail": f.detail})));
        }
    }
    say("@END".into());
    0
}

/// Parent side of an isolated check's random stage
fn run_isolated(check: &dyn Check, tier: Tier, seed: u64, plan: &Plan, acc: &mut Acc, failures: &mut Vec<(Failure, Option<Tape>)>) {
    use std::io::{BufRead, BufReader};
    use std::process::{Command, Stdio};
    let workers = plan.workers.max(1);
    let exe = match std::env::current_exe() {
        Ok(e) => e,
        Err(e) => {
            failures.push((Failure::new("harness-panic:current_exe", format!("{e}")), None));
            return;
        }
    };
    let stop = AtomicBool::new(false);
    let shared = Mutex::new((Acc::default(), Vec::<(Failure, Option<Tape>)>::new()));
    std::thread::scope(|s| {
        for w in 0..workers {
            let (stop, shared, exe) = (&stop, &shared, &exe);
            s.spawn(move || {
                let mut local = Acc::default();
                let mut fails: Vec<(Failure, Option<Tape>)> = vec![];
                let mut skip = 0u64;
                let mut respawns = 0u32;
                'outer: loop {
                    if stop.load(Ordering::Relaxed) {
                        break;
                    }
                    let mut child = match Command::new(exe)
                        .arg(check.id())
                        .arg(tier.name())
                        .arg("--child")
                        .arg(w.to_string())
                        .arg("--skip")
                        .arg(skip.to_string())
                        .env("VERIF_SEED", seed.to_string())
                        .env("VERIF_TIER", tier.name())
                        .stdout(Stdio::piped())
                        .stderr(Stdio::null())
                        .spawn()
                    {
                        Ok(c) => c,
                        Err(e) => {
                            fails.push((Failure::new("harness-panic:spawn", format!("cannot spawn worker process: {e}")), None));
                            break;
                        }
                    };
                    let reader = BufReader::new(child.stdout.take().unwrap());
                    let mut in_flight: Option<String> = None;
                    let mut failraw: Option<Value> = None;
                    let mut ended = false;
                    let mut got_fail = false;
                    for line in reader.lines() {
                        let Ok(line) = line else { break };
                        if stop.load(Ordering::Relaxed) && failraw.is_none() {
                            let _ = child.kill();
                            break;
                        }
                        if let Some(hex) = line.strip_prefix("@CASE ") {
                            in_flight = Some(hex.to_string());
                            if failraw.is_none() {
                                skip += 1;
                            }
                        } else if let Some(j) = line.strip_prefix("@DONE ") {
                            in_flight = None;
                            if let Ok(v) = serde_json::from_str::<Value>(j) {
                                absorb_json(&mut local, &v);
                            }
                        } else if let Some(j) = line.strip_prefix("@FAILRAW ") {
                            failraw = serde_json::from_str::<Value>(j).ok();
                            stop.store(true, Ordering::Relaxed);
                        } else if let Some(j) = line.strip_prefix("@FAIL ") {
                            if let Ok(v) = serde_json::from_str::<Value>(j) {
                                let f = Failure { signature: v["signature"].as_str().unwrap_or("").to_string(), msg: v["msg"].as_str().unwrap_or("").to_string(), detail: v["detail"].clone() };
                                fails.push((f, v["tape"].as_str().and_then(Tape::from_hex)));
                                got_fail = true;
                            }
                        } else if line == "@END" {
                            ended = true;
                        }
                    }
                    let _ = child.wait();
                    if let Some(v) = failraw {
                        if !got_fail {
                            // the process died while shrinking: report the unshrunk failure
                            let f = Failure { signature: v["signature"].as_str().unwrap_or("").to_string(), msg: v["msg"].as_str().unwrap_or("").to_string(), detail: v["detail"].clone() };
                            fails.push((f, v["tape"].as_str().and_then(Tape::from_hex)));
                        }
                        break 'outer;
                    }
                    if ended || stop.load(Ordering::Relaxed) {
                        break;
                    }
                    // abnormal end: the in-flight case made the process abort
                    if check.abort_is_violation() {
                        let t = in_flight.as_deref().and_then(Tape::from_hex);
                        fails.push((Failure::new("process-abort", "the worker process was killed by a signal (abort: a panic while already unwinding, inside the code under test) while running this case of valid API use".to_string()), t));
                        stop.store(true, Ordering::Relaxed);
                        break;
                    }
                    local.cases += 1;
                    local.evaluations += 1;
                    *local.classes.entry("case ended by a process abort inside the code under test (double panic): counted as reported abnormally".into()).or_default() += 1;
                    if let Some(hex) = in_flight {
                        let list = local.extra.entry("aborted_case_tapes(first 3)".into()).or_insert_with(|| json!([]));
                        if let Some(a) = list.as_array_mut()
                            && a.len() < 3
                        {
                            a.push(json!(hex));
                        }
                    }
                    respawns += 1;
                    if respawns > 400 {
                        fails.push((Failure::new("harness-panic:respawn-limit", "worker process aborted more than 400 times".to_string()), None));
                        break;
                    }
                }
                let mut g = shared.lock().unwrap();
                g.0.merge(local);
                g.1.extend(fails);
            });
        }
    });
    let (a, f) = shared.into_inner().unwrap();
    acc.merge(a);
    failures.extend(f);
}

pub fn run_check(check: &dyn Check, tier: Tier, seed: u64) -> i32 {
    let start = Instant::now();
    let mut plan = check.plan(tier);
    // experiments only (sensitivity runs): override the number of random cases
    if let Some(n) = std::env::var("VERIF_CASES").ok().and_then(|s| s.parse::<u64>().ok()) {
        plan.cases = n;
    }
    let known = Known::load();
    let mut acc = Acc::default();
    let mut failures: Vec<(Failure, Option<Tape>)> = vec![];

    // stage 0: regression corpus
    let corpus = corpus_tapes(check.id());
    let mut corpus_n = 0u64;
    for (name, t) in &corpus {
        corpus_n += 1;
        match run_caught(check, t, false) {
            Ok(o) => acc.absorb(o),
            Err(mut f) => {
                f.msg = format!("[corpus {name}] {}", f.msg);
                failures.push((f, Some(t.clone())));
            }
        }
    }
    acc.extra.insert("corpus_tapes_replayed".into(), json!(corpus_n));

    // stage 1: enumerated / auxiliary
    if failures.is_empty() {
        failures.extend(check.extra(tier, seed, &mut acc));
    }

    // stage 2: seeded random search with shrinking
    let stop = AtomicBool::new(false);
    let budget_cases = AtomicU64::new(0);
    let shared = Mutex::new((Acc::default(), Vec::<(Failure, Option<Tape>)>::new()));
    let only_known_so_far = failures.iter().all(|(f, _)| known.is_known(check.id(), &f.signature).is_some());
    let isolate = check.isolated() || std::env::var("VERIF_ISOLATE").is_ok();
    if only_known_so_far && plan.cases > 0 && isolate {
        run_isolated(check, tier, seed, &plan, &mut acc, &mut failures);
    } else if only_known_so_far && plan.cases > 0 {
        let workers = plan.workers.max(1);
        std::thread::scope(|s| {
            for w in 0..workers {
                let stop = &stop;
                let shared = &shared;
                let budget_cases = &budget_cases;
                let plan = &plan;
                s.spawn(move || {
                    let my_cases = plan.cases / workers as u64
                        + if (w as u64) < plan.cases % workers as u64 { 1 } else { 0 };
                    if my_cases == 0 {
                        return;
                    }
                    let cfg = Config {
                        cases: my_cases as u32,
                        failure_persistence: None,
                        max_shrink_iters: plan.max_shrink_iters,
                        max_global_rejects: 0,
                        ..Config::default()
                    };
                    let rng = TestRng::from_seed(RngAlgorithm::ChaCha, &seed_bytes(seed, w as u64, 2));
                    let mut runner = TestRunner::new_with_rng(cfg, rng);
                    let strat = (
                        any::<[u8; CFG_LEN]>(),
                        prop::collection::vec(any::<[u8; REC_LEN]>(), 0..=plan.max_recs),
                    );
                    let local = RefCell::new(Acc::default());
                    let failed = Cell::new(false);
                    let last_fail: RefCell<Option<Failure>> = RefCell::new(None);
                    let res = runner.run(&strat, |(cfg, recs)| {
                        if !failed.get() && stop.load(Ordering::Relaxed) {
                            return Ok(());
                        }
                        let tape = Tape { cfg, recs };
                        let want_sample = !failed.get() && local.borrow().samples.len() < 2;
                        match run_caught(check, &tape, want_sample) {
                            Ok(o) => {
                                if !failed.get() {
                                    budget_cases.fetch_add(1, Ordering::Relaxed);
                                    local.borrow_mut().absorb(o);
                                }
                                Ok(())
                            }
                            Err(f) => {
                                failed.set(true);
                                stop.store(true, Ordering::Relaxed);
                                let m = f.msg.clone();
                                *last_fail.borrow_mut() = Some(f);
                                Err(TestCaseError::fail(m))
                            }
                        }
                    });
                    let mut g = shared.lock().unwrap();
                    g.0.merge(local.into_inner());
                    if let Err(TestError::Fail(_, (cfg, recs))) = res {
                        let tape = Tape { cfg, recs };
                        // re-run the minimal tape to get its own failure record
                        let f = match run_caught(check, &tape, false) {
                            Err(f) => f,
                            Ok(_) => last_fail.into_inner().unwrap_or_else(|| {
                                Failure::new("unstable", "shrunk tape no longer fails (nondeterminism)")
                            }),
                        };
                        g.1.push((f, Some(tape)));
                    } else if let Err(TestError::Abort(r)) = res {
                        g.1.push((Failure::new("abort", format!("proptest aborted: {r}")), None));
                    }
                });
            }
        });
    }
    let (wacc, wfails) = shared.into_inner().unwrap();
    acc.merge(wacc);
    failures.extend(wfails);

    // stage 3 (thorough only): coverage-guided search over the same tapes (libFuzzer)
    let mut stage_exit = 0;
    if tier == Tier::Thorough && failures.is_empty() && check.fuzz_runs() > 0 && std::env::var("VERIF_NO_FUZZ").is_err() {
        stage_exit = fuzz_stage(check, seed, &plan, &corpus, &mut acc, &mut failures);
    }

    // verdict
    let mut violations = 0;
    let mut exit = stage_exit;
    let mut known_lines = HashSet::new();
    for (f, tape) in &failures {
        if let Some(what) = known.is_known(check.id(), &f.signature) {
            if known_lines.insert(f.signature.clone()) {
                println!("KNOWN-FINDING: property={} {} [{}]", check.id(), what, f.signature);
            }
            continue;
        }
        // machinery trouble (a panic located in the harness, a wait that timed out on an overloaded
        // machine, scratch-file I/O) is inconclusive, never a verdict about redb
        if f.signature.starts_with("harness-panic") || f.signature == "harness-gate-timeout" || f.signature == "harness-io" {
            let path = write_replay(check, seed, tier, tape.as_ref(), f);
            println!("HARNESS-ERROR property={} {} replay={}", check.id(), f.msg, path);
            if exit == 0 {
                exit = 2;
            }
            continue;
        }
        violations += 1;
        let path = write_replay(check, seed, tier, tape.as_ref(), f);
        println!("  {}: {}", f.signature, f.msg);
        println!("VIOLATION property={} replay={}", check.id(), path);
        exit = 1;
    }

    // evidence
    if acc.samples.is_empty() {
        // the run ended before any random case completed (a violation in an earlier stage):
        // the schema still wants a sample of what the generator produces
        let mut rng = TestRng::from_seed(RngAlgorithm::ChaCha, &seed_bytes(seed, 0, 7));
        use proptest::prelude::RngCore;
        let mut b = vec![0u8; CFG_LEN + REC_LEN * plan.max_recs.min(12)];
        rng.fill_bytes(&mut b);
        let t = Tape::from_bytes(&b);
        let rendered = catch(|| check.render(&t)).unwrap_or_else(|p| json!({"render_panicked": p}));
        acc.samples.push(json!({"note": "no random case completed in this run; this is one generated tape, decoded", "tape": t.to_hex(), "decoded": rendered}));
    }
    let wall = start.elapsed().as_secs_f64();
    let mut coverage = serde_json::Map::new();
    coverage.insert("evaluations".into(), json!(acc.evaluations));
    coverage.insert("distinct_nontrivial".into(), json!(acc.nontrivial.len()));
    coverage.insert("rule".into(), json!(check.rule()));
    coverage.insert("samples".into(), json!(acc.samples));
    coverage.insert("cases".into(), json!(acc.cases));
    coverage.insert("classes".into(), json!(acc.classes));
    coverage.insert("excluded_known_finding_cases".into(), json!(acc.excluded_known));
    if let Some(e) = acc.exhaustive {
        coverage.insert("exhaustive".into(), json!(e));
    }
    for (k, v) in &acc.extra {
        coverage.insert(k.clone(), v.clone());
    }
    let ev = json!({
        "property_id": check.id(),
        "tier": tier.name(),
        "seed": seed,
        "level": check.level(),
        "coverage": Value::Object(coverage),
        "assumptions": check.assumptions(),
        "wall_s": wall,
        "violations": violations,
    });
    let dir = format!("{}/evidence", verif_root());
    let _ = std::fs::create_dir_all(&dir);
    let _ = std::fs::write(
        format!("{dir}/{}.json", check.id()),
        serde_json::to_string_pretty(&ev).unwrap(),
    );
    println!(
        "{} {} seed={} cases={} evaluations={} distinct_nontrivial={} violations={} wall={:.1}s",
        check.id(),
        tier.name(),
        seed,
        acc.cases,
        acc.evaluations,
        acc.nontrivial.len(),
        violations,
        wall
    );
    exit
}
