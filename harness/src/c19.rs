//! C19: files stay readable across releases that share the file format (differential against
//! redb 3.0.0 from the cargo cache, engine `compat`)

use crate::backend::RecBackend;
use crate::crash::{Keep, Pend, Rng, build_image, continuation, list_psp};
use crate::driver::{Acc, CaseOut, Check, Failure, Plan, Tier, catch, normalize_sig};
use crate::dyntab::{DEFS, Def, TableM};
use crate::genr::DbCfg;
use crate::hist::*;
use crate::mv::{MV, Ty};
use crate::tape::{Fnv, Rec, Tape};
use redb3::{ReadableDatabase as _, ReadableMultimapTable as _, ReadableTable as _, ReadableTableMetadata as _};
use redb::{ReadableDatabase as _, ReadableTable as _};
use serde_json::{Value, json};
use std::collections::{BTreeMap, BTreeSet};
use std::sync::{Arc, Mutex};

pub struct C19;

/// shared-buffer backend for redb 3.0.0's StorageBackend trait
#[derive(Debug, Clone)]
struct Shared3(Arc<Mutex<Vec<u8>>>);

impl redb3::StorageBackend for Shared3 {
    fn len(&self) -> Result<u64, std::io::Error> {
        Ok(self.0.lock().unwrap().len() as u64)
    }
    fn read(&self, offset: u64, out: &mut [u8]) -> Result<(), std::io::Error> {
        let g = self.0.lock().unwrap();
        let end = offset as usize + out.len();
        if end > g.len() {
            return Err(std::io::Error::new(std::io::ErrorKind::UnexpectedEof, "read past eof"));
        }
        out.copy_from_slice(&g[offset as usize..end]);
        Ok(())
    }
    fn set_len(&self, len: u64) -> Result<(), std::io::Error> {
        self.0.lock().unwrap().resize(len as usize, 0);
        Ok(())
    }
    fn sync_data(&self) -> Result<(), std::io::Error> {
        Ok(())
    }
    fn write(&self, offset: u64, data: &[u8]) -> Result<(), std::io::Error> {
        let mut g = self.0.lock().unwrap();
        let end = offset as usize + data.len();
        if end > g.len() {
            return Err(std::io::Error::new(std::io::ErrorKind::InvalidInput, "write past eof"));
        }
        g[offset as usize..end].copy_from_slice(data);
        Ok(())
    }
}

fn cfg_default(tape: &Tape) -> DbCfg {
    // the only geometry either release lets users have
    let caches = [1usize << 30, 1 << 20, 64 * 1024];
    DbCfg { page_size: 4096, region_size: 1 << 32, cache_size: caches[(tape.cfg[2] % 3) as usize] }
}

fn fail(sig: &str, msg: String) -> Failure {
    Failure::new(sig, msg)
}

fn mv_u64(v: u64) -> MV {
    MV::U64(v)
}
fn mv_str(v: &str) -> MV {
    MV::Str(v.to_string())
}
fn mv_bytes(v: &[u8]) -> MV {
    MV::Bytes(v.to_vec())
}

macro_rules! read3_normal {
    ($rt:expr, $name:expr, $K:ty, $V:ty, $kf:expr, $vf:expr) => {{
        let def: redb3::TableDefinition<$K, $V> = redb3::TableDefinition::new($name);
        let t = $rt.open_table(def).map_err(|e| format!("redb 3.0.0 cannot open table {:?}: {e:?}", $name))?;
        let mut out: Vec<(MV, MV)> = vec![];
        for e in t.iter().map_err(|e| format!("{e:?}"))? {
            let (k, v) = e.map_err(|e| format!("redb 3.0.0 read error in {:?}: {e:?}", $name))?;
            // a point lookup has to route through the branch pages (iteration does not compare
            // routing keys): the old release must be able to use the separators this tree wrote
            match t.get(k.value()).map_err(|e| format!("redb 3.0.0 get() error in {:?}: {e:?}", $name))? {
                Some(g) if $vf(g.value()) == $vf(v.value()) => {}
                Some(_) => return Err(format!("redb 3.0.0: get({:?}) in {:?} returns another value than iteration", $kf(k.value()), $name)),
                None => return Err(format!("redb 3.0.0: get({:?}) in {:?} finds nothing although iteration yields the key (routing keys written by this tree misroute the old release)", $kf(k.value()), $name)),
            }
            out.push(($kf(k.value()), $vf(v.value())));
        }
        let l = t.len().map_err(|e| format!("{e:?}"))?;
        if l != out.len() as u64 {
            return Err(format!("redb 3.0.0: len() of {:?} is {l} but iteration yields {}", $name, out.len()));
        }
        out
    }};
}

macro_rules! read3_multi {
    ($rt:expr, $name:expr, $K:ty, $V:ty, $kf:expr, $vf:expr) => {{
        let def: redb3::MultimapTableDefinition<$K, $V> = redb3::MultimapTableDefinition::new($name);
        let t = $rt.open_multimap_table(def).map_err(|e| format!("redb 3.0.0 cannot open multimap {:?}: {e:?}", $name))?;
        let mut out: Vec<(MV, Vec<MV>)> = vec![];
        for e in t.iter().map_err(|e| format!("{e:?}"))? {
            let (k, vals) = e.map_err(|e| format!("redb 3.0.0 read error in {:?}: {e:?}", $name))?;
            let mut vs = vec![];
            for v in vals {
                vs.push($vf(v.map_err(|e| format!("{e:?}"))?.value()));
            }
            // point lookup through the branch pages (see read3_normal)
            let mut via_get = vec![];
            for v in t.get(k.value()).map_err(|e| format!("redb 3.0.0 get() error in {:?}: {e:?}", $name))? {
                via_get.push($vf(v.map_err(|e| format!("{e:?}"))?.value()));
            }
            if via_get != vs {
                return Err(format!("redb 3.0.0: get({:?}) in multimap {:?} yields {} values, iteration {} (routing keys written by this tree misroute the old release)", $kf(k.value()), $name, via_get.len(), vs.len()));
            }
            out.push(($kf(k.value()), vs));
        }
        out
    }};
}

/// read everything through redb 3.0.0 and compare with the model
fn verify3(db: &redb3::Database, tables: &Tables, psp: &BTreeSet<u64>) -> Result<(), String> {
    let rt = db.begin_read().map_err(|e| format!("redb 3.0.0 begin_read: {e:?}"))?;
    let n: Vec<String> = rt.list_tables().map_err(|e| format!("{e:?}"))?.map(|h| redb3::TableHandle::name(&h).to_string()).collect();
    let m: Vec<String> = rt.list_multimap_tables().map_err(|e| format!("{e:?}"))?.map(|h| redb3::MultimapTableHandle::name(&h).to_string()).collect();
    let en: Vec<String> = tables.iter().filter(|(_, t)| !t.def().multi).map(|(k, _)| k.clone()).collect();
    let em: Vec<String> = tables.iter().filter(|(_, t)| t.def().multi).map(|(k, _)| k.clone()).collect();
    if n != en || m != em {
        return Err(format!("redb 3.0.0 lists tables {n:?} / multimaps {m:?}, expected {en:?} / {em:?}"));
    }
    for (name, tm) in tables.iter() {
        match tm {
            TableM::N { def, data } => {
                let got: Vec<(MV, MV)> = match (def.kty, def.vty) {
                    (Ty::U64, Ty::Bytes) => read3_normal!(rt, name.as_str(), u64, &[u8], mv_u64, mv_bytes),
                    (Ty::Str, Ty::Bytes) => read3_normal!(rt, name.as_str(), &str, &[u8], mv_str, mv_bytes),
                    (Ty::U64, Ty::U64) => read3_normal!(rt, name.as_str(), u64, u64, mv_u64, mv_u64),
                    (Ty::Str, Ty::U64) => read3_normal!(rt, name.as_str(), &str, u64, mv_str, mv_u64),
                    _ => return Err("harness: type pair outside the menu".into()),
                };
                let exp: Vec<(MV, MV)> = data.iter().map(|(k, v)| (k.clone(), v.clone())).collect();
                if got != exp {
                    let first = got.iter().zip(exp.iter()).position(|(a, b)| a != b);
                    return Err(format!("redb 3.0.0 reads {} entries from table {name:?}, expected {}; first difference at index {first:?}", got.len(), exp.len()));
                }
            }
            TableM::M { def, data } => {
                let got: Vec<(MV, Vec<MV>)> = match (def.kty, def.vty) {
                    (Ty::U64, Ty::Bytes) => read3_multi!(rt, name.as_str(), u64, &[u8], mv_u64, mv_bytes),
                    (Ty::Str, Ty::U64) => read3_multi!(rt, name.as_str(), &str, u64, mv_str, mv_u64),
                    (Ty::U64, Ty::U64) => read3_multi!(rt, name.as_str(), u64, u64, mv_u64, mv_u64),
                    (Ty::Str, Ty::Bytes) => read3_multi!(rt, name.as_str(), &str, &[u8], mv_str, mv_bytes),
                    _ => return Err("harness: type pair outside the menu".into()),
                };
                let exp: Vec<(MV, Vec<MV>)> = data.iter().map(|(k, s)| (k.clone(), s.iter().cloned().collect())).collect();
                if got != exp {
                    return Err(format!("redb 3.0.0 reads {} keys from multimap {name:?}, expected {}", got.len(), exp.len()));
                }
            }
        }
    }
    drop(rt);
    let wt = db.begin_write().map_err(|e| format!("redb 3.0.0 begin_write: {e:?}"))?;
    let listed: BTreeSet<u64> = wt.list_persistent_savepoints().map_err(|e| format!("{e:?}"))?.collect();
    wt.abort().map_err(|e| format!("{e:?}"))?;
    if &listed != psp {
        return Err(format!("redb 3.0.0 lists persistent savepoints {listed:?}, expected {psp:?}"));
    }
    Ok(())
}

fn open3(image: Vec<u8>) -> Result<(redb3::Database, Shared3), String> {
    let b = Shared3(Arc::new(Mutex::new(image)));
    let b2 = b.clone();
    match catch(|| redb3::Database::builder().create_with_backend(b2)) {
        Ok(Ok(db)) => Ok((db, b)),
        Ok(Err(e)) => Err(format!("redb 3.0.0 cannot open the file: {e:?}")),
        Err(p) => Err(format!("redb 3.0.0 panicked opening the file: {p}")),
    }
}

thread_local! {
    /// known finding C19/new-to-old-integrity-ok-false: number of exclusions in the current case
    static EXCLUDED_OK_FALSE: std::cell::Cell<u64> = const { std::cell::Cell::new(0) };
    static STRICT: std::cell::Cell<bool> = const { std::cell::Cell::new(false) };
}

const SIG_OK_FALSE: &str = "new-to-old-integrity-ok-false";

fn check3(image: Vec<u8>, tables: &Tables, psp: &BTreeSet<u64>, integrity: bool) -> Result<(), String> {
    let (mut db, _b) = open3(image)?;
    match catch(|| verify3(&db, tables, psp)) {
        Ok(r) => r?,
        Err(p) => return Err(format!("redb 3.0.0 panicked reading the file: {p}")),
    }
    if integrity {
        match catch(|| db.check_integrity()) {
            Ok(Ok(true)) => {}
            Ok(Ok(false)) => {
                // known finding: redb 3.0.0 rebuilds the allocator state this tree saved and reports
                // "repaired". Excluded by construction (counted) unless strict; the data must be
                // intact and a second check must pass.
                if STRICT.with(|s| s.get()) {
                    return Err(format!("{SIG_OK_FALSE}: redb 3.0.0 check_integrity() returned Ok(false) (repaired) on a file written by this tree"));
                }
                EXCLUDED_OK_FALSE.with(|c| c.set(c.get() + 1));
                match catch(|| db.check_integrity()) {
                    Ok(Ok(true)) => {}
                    Ok(r) => return Err(format!("redb 3.0.0 second check_integrity() returned {r:?}")),
                    Err(p) => return Err(format!("redb 3.0.0 panicked in the second check_integrity(): {p}")),
                }
                match catch(|| verify3(&db, tables, psp)) {
                    Ok(r) => r.map_err(|e| format!("after redb 3.0.0 repaired the file: {e}"))?,
                    Err(p) => return Err(format!("redb 3.0.0 panicked reading the file after its repair: {p}")),
                }
            }
            Ok(r) => return Err(format!("redb 3.0.0 check_integrity() returned {r:?}")),
            Err(p) => return Err(format!("redb 3.0.0 panicked in check_integrity(): {p}")),
        }
    }
    Ok(())
}

/// probe of the known finding: an empty database created and closed by this tree
fn probe_ok_false() -> Result<(), Failure> {
    let backend = RecBackend::new(false);
    let db = redb::Builder::new().create_with_backend(backend.clone()).map_err(|e| fail("harness", format!("{e:?}")))?;
    drop(db);
    STRICT.with(|s| s.set(true));
    let r = check3(backend.image(), &BTreeMap::new(), &BTreeSet::new(), true);
    STRICT.with(|s| s.set(false));
    match r {
        Ok(()) => Ok(()),
        Err(e) if e.starts_with(SIG_OK_FALSE) => Err(fail(SIG_OK_FALSE, format!("an empty database created and cleanly closed by this tree (default Builder): {e}"))),
        Err(e) => Err(fail("new-to-old", e)),
    }
}

fn profile(_t: &Tape) -> Profile {
    let mut p = Profile::base();
    p.w_table_op = 150;
    p.w_commit = 14;
    p.w_begin = 6;
    p.nondurable = 60;
    p.w_sp_pers = 3;
    p.w_sp_eph = 1;
    p.w_restore = 2;
    p.w_del_pers = 1;
    p.w_delete_table = 2;
    p.w_rename = 1;
    p.w_reopen = 1;
    p.w_compact = 1;
    p.w_check = 0;
    p.w_begin_read = 0;
    p.w_reader_probe = 0;
    p.w_take_owned = 0;
    p.w_owned_step = 0;
    p.w_hold = 0;
    p.mismatch = 0;
    p.key_universe = 512;
    p.verify_each_commit = false;
    p
}

#[derive(Default)]
struct Out {
    classes: Vec<&'static str>,
    nontrivial: bool,
    crash_images: u64,
    trace: Option<Vec<String>>,
}

/// direction A: this tree writes, redb 3.0.0 reads
fn new_to_old(tape: &Tape, out: &mut Out, trace: bool) -> Result<(), Failure> {
    let cfg = cfg_default(tape);
    let mut m = Machine::new(cfg, profile(tape), true, trace).map_err(stop_failure)?;
    m.capture = true;
    // bulk prefill so that trees are deep and separators get shortened
    let bulk = [0usize, 400, 2500][(tape.cfg[4] % 3) as usize];
    if bulk > 0 {
        m.begin_write(Dur::Immediate, false, false).map_err(stop_failure)?;
        {
            let w = m.w.as_mut().unwrap();
            let txn = w.txn.as_ref().unwrap();
            let def = DEFS[1]; // Table<&str,&[u8]>
            let mut tm = TableM::new(def);
            let mut h = unsafe { crate::dyntab::open_held(txn, "t", def) }.map_err(|e| fail("open", format!("{e:?}")))?;
            let mut ctx = crate::dyntab::OpCtx::default();
            for i in 0..bulk {
                let k = MV::Str(format!("key/shared-prefix/{:06}/{}", i * 7 % bulk, "x".repeat(i % 23)));
                let v = MV::Bytes(crate::genr::fill(i as u64, 10 + i % 90));
                h.apply(&crate::dyntab::AnyOp::T(crate::tableops::TOp::Insert { k, v }), &mut tm, &mut ctx).map_err(stop_failure)?;
            }
            drop(h);
            Arc::make_mut(&mut w.work.tables).insert("t".to_string(), tm);
            w.dirty = true;
        }
        m.commit().map_err(stop_failure)?;
    }
    let res = m.run_tape(tape);
    out.trace = m.trace.clone();
    res.map_err(stop_failure)?;
    m.drop_all_handles();
    // crash image: the durable state while the process is still running
    let (log, marks) = {
        let g = m.backend.lock();
        (g.log.clone(), g.marks.clone())
    };
    let _ = marks;
    let mut durable: Vec<u8> = vec![];
    let mut pending: Vec<Pend> = vec![];
    for op in &log {
        match op {
            crate::backend::LogOp::Write { off, data } => pending.push(Pend::Write { off: *off, data: Arc::new(data.clone()) }),
            crate::backend::LogOp::SetLen(l) => pending.push(Pend::SetLen(*l)),
            crate::backend::LogOp::Sync => {
                let all = vec![Keep::Keep; pending.len()];
                durable = build_image(&durable, &pending, &all);
                pending.clear();
            }
            _ => {}
        }
    }
    let mut rng = Rng::new(crate::crashchecks::crash_seed(tape));
    let (d, r) = (m.d, m.commits.len() - 1);
    for k in 0..2 {
        let decisions: Vec<Keep> = (0..pending.len()).map(|_| if k == 0 || rng.chance(1, 2) { Keep::Drop } else { Keep::Keep }).collect();
        let img = build_image(&durable, &pending, &decisions);
        // redb 3.0.0 recovers the crash image: must equal one commit point of the window
        let mut ok = false;
        let mut last_err = String::new();
        for j in (d..=r).rev() {
            let st = &m.commits[j];
            let psp: BTreeSet<u64> = st.psp.keys().copied().collect();
            match check3(img.clone(), &st.tables, &psp, j == r) {
                Ok(()) => {
                    ok = true;
                    break;
                }
                Err(e) => {
                    if last_err.is_empty() {
                        last_err = e;
                    }
                }
            }
        }
        out.crash_images += 1;
        if !ok {
            return Err(fail("new-to-old-crash-image", format!("a crash image of a file written by this tree, recovered by redb 3.0.0, equals none of the commit points S{d}..=S{r}: {last_err}")));
        }
    }
    // clean close
    let db = m.db.take();
    drop(db);
    let img = m.backend.image();
    let st = m.last().clone();
    let psp: BTreeSet<u64> = st.psp.keys().copied().collect();
    check3(img.clone(), &st.tables, &psp, true).map_err(|e| fail("new-to-old", format!("file written and cleanly closed by this tree: {e}")))?;
    // non-triviality from the independent decoder
    if let Ok(src) = crate::decoder::ImageSource::new(&img) {
        let slot = &src.header.slots[src.header.primary];
        if let Ok(f) = crate::decoder::decode_forest(&src, slot.user_root, slot.system_root, false) {
            let shortened: u32 = f.tables.values().map(|t| t.shortened_separators).sum();
            let subtrees: u32 = f.tables.values().map(|t| t.subtrees).sum();
            if shortened > 0 {
                out.classes.push("new->old image with shortened separators in a variable-width-key table");
                out.nontrivial = true;
            }
            if subtrees > 0 {
                out.classes.push("new->old image with a multimap subtree");
                out.nontrivial = true;
            }
        }
    }
    out.classes.push("direction: written by this tree, read by redb 3.0.0");
    Ok(())
}

/// direction B: redb 3.0.0 writes, this tree reads and writes further, redb 3.0.0 reads again
fn old_to_new(tape: &Tape, out: &mut Out) -> Result<(), Failure> {
    let buf = Shared3(Arc::new(Mutex::new(vec![])));
    let mut tables: Tables = BTreeMap::new();
    let mut committed = tables.clone();
    let mut psp: BTreeSet<u64> = BTreeSet::new();
    let mut committed_psp = psp.clone();
    let defs: [(&str, Def); 4] = [("a", DEFS[0]), ("b", DEFS[1]), ("m", DEFS[2]), ("n", DEFS[4])];
    let res = catch(|| -> Result<(), String> {
        let db = redb3::Database::builder().create_with_backend(buf.clone()).map_err(|e| format!("redb 3.0.0 create: {e:?}"))?;
        let mut i = 0usize;
        let recs = &tape.recs;
        let bulk = [0usize, 600, 3000][(tape.cfg[4] % 3) as usize];
        let mut first = true;
        while i < recs.len() || first {
            let mut txn = db.begin_write().map_err(|e| format!("{e:?}"))?;
            let mut nd = false;
            if first && bulk > 0 {
                let def: redb3::TableDefinition<&str, &[u8]> = redb3::TableDefinition::new("b");
                let mut t = txn.open_table(def).map_err(|e| format!("{e:?}"))?;
                let tm = tables.entry("b".into()).or_insert_with(|| TableM::new(DEFS[1]));
                for j in 0..bulk {
                    let k = format!("key/shared-prefix/{:06}/{}", j * 7 % bulk, "y".repeat(j % 19));
                    let v = crate::genr::fill(j as u64, 10 + j % 70);
                    t.insert(k.as_str(), v.as_slice()).map_err(|e| format!("{e:?}"))?;
                    if let TableM::N { data, .. } = tm {
                        data.insert(MV::Str(k), MV::Bytes(v));
                    }
                }
            }
            first = false;
            let mut end = 0u8; // 0 commit, 1 abort
            while i < recs.len() {
                let mut r = Rec::new(&recs[i]);
                i += 1;
                let sel = r.u8();
                if sel >= 236 {
                    nd = sel % 2 == 0;
                    end = if sel >= 250 { 1 } else { 0 };
                    break;
                }
                if sel >= 228 {
                    // persistent savepoint (must be first in a transaction: only when nothing was opened)
                    continue;
                }
                let (name, def) = defs[r.idx8(4)];
                let kidx = r.idx16(400);
                let remove = r.u8() % 4 == 0;
                let k = crate::genr::key(def.kty, kidx, 4096);
                let tm = tables.entry(name.into()).or_insert_with(|| TableM::new(def));
                let tag = (i as u64) << 16 | u64::from(r.u16());
                match (name, tm) {
                    ("a", TableM::N { data, .. }) => {
                        let d: redb3::TableDefinition<u64, &[u8]> = redb3::TableDefinition::new("a");
                        let mut t = txn.open_table(d).map_err(|e| format!("{e:?}"))?;
                        let MV::U64(kk) = k else { unreachable!() };
                        if remove {
                            t.remove(kk).map_err(|e| format!("{e:?}"))?;
                            data.remove(&k);
                        } else {
                            let v = crate::genr::val_of(Ty::Bytes, tag, r.u8(), 3, 4096, 20000);
                            let MV::Bytes(vb) = &v else { unreachable!() };
                            t.insert(kk, vb.as_slice()).map_err(|e| format!("{e:?}"))?;
                            data.insert(k, v);
                        }
                    }
                    ("b", TableM::N { data, .. }) => {
                        let d: redb3::TableDefinition<&str, &[u8]> = redb3::TableDefinition::new("b");
                        let mut t = txn.open_table(d).map_err(|e| format!("{e:?}"))?;
                        let MV::Str(kk) = &k else { unreachable!() };
                        if remove {
                            t.remove(kk.as_str()).map_err(|e| format!("{e:?}"))?;
                            data.remove(&k);
                        } else {
                            let v = crate::genr::val_of(Ty::Bytes, tag, r.u8(), 3, 4096, 20000);
                            let MV::Bytes(vb) = &v else { unreachable!() };
                            t.insert(kk.as_str(), vb.as_slice()).map_err(|e| format!("{e:?}"))?;
                            data.insert(k.clone(), v);
                        }
                    }
                    ("m", TableM::M { data, .. }) => {
                        let d: redb3::MultimapTableDefinition<u64, &[u8]> = redb3::MultimapTableDefinition::new("m");
                        let mut t = txn.open_multimap_table(d).map_err(|e| format!("{e:?}"))?;
                        let kk = (kidx % 6) as u64;
                        let k = MV::U64(kk);
                        let n = if remove { 1 } else { 1 + (r.u8() as usize) % 40 };
                        for j in 0..n {
                            let v = crate::mmops::run_val(Ty::Bytes, tag % 50, j as u32, 30);
                            let MV::Bytes(vb) = &v else { unreachable!() };
                            if remove {
                                t.remove(kk, vb.as_slice()).map_err(|e| format!("{e:?}"))?;
                                if let Some(s) = data.get_mut(&k) {
                                    s.remove(&v);
                                    if s.is_empty() {
                                        data.remove(&k);
                                    }
                                }
                            } else {
                                t.insert(kk, vb.as_slice()).map_err(|e| format!("{e:?}"))?;
                                data.entry(k.clone()).or_default().insert(v);
                            }
                        }
                    }
                    ("n", TableM::M { data, .. }) => {
                        let d: redb3::MultimapTableDefinition<&str, u64> = redb3::MultimapTableDefinition::new("n");
                        let mut t = txn.open_multimap_table(d).map_err(|e| format!("{e:?}"))?;
                        let k = crate::genr::key(Ty::Str, kidx % 12, 4096);
                        let MV::Str(kk) = &k else { unreachable!() };
                        let v = tag % 97;
                        if remove {
                            t.remove(kk.as_str(), v).map_err(|e| format!("{e:?}"))?;
                            if let Some(s) = data.get_mut(&k) {
                                s.remove(&MV::U64(v));
                                if s.is_empty() {
                                    data.remove(&k);
                                }
                            }
                        } else {
                            t.insert(kk.as_str(), v).map_err(|e| format!("{e:?}"))?;
                            data.entry(k.clone()).or_default().insert(MV::U64(v));
                        }
                    }
                    _ => {}
                }
            }
            if end == 1 {
                txn.abort().map_err(|e| format!("{e:?}"))?;
                tables = committed.clone();
                psp = committed_psp.clone();
            } else {
                if nd {
                    txn.set_durability(redb3::Durability::None).map_err(|e| format!("{e:?}"))?;
                }
                txn.commit().map_err(|e| format!("redb 3.0.0 commit: {e:?}"))?;
                committed = tables.clone();
                committed_psp = psp.clone();
            }
        }
        // one persistent savepoint at the end (on a clean transaction), then more data
        if tape.cfg[5] % 2 == 0 {
            let txn = db.begin_write().map_err(|e| format!("{e:?}"))?;
            let id = txn.persistent_savepoint().map_err(|e| format!("{e:?}"))?;
            txn.commit().map_err(|e| format!("{e:?}"))?;
            committed_psp.insert(id);
        }
        drop(db);
        Ok(())
    });
    match res {
        Ok(Ok(())) => {}
        Ok(Err(e)) => return Err(fail("harness-redb3-writer", format!("the redb 3.0.0 writer failed (harness precondition): {e}"))),
        Err(p) => return Err(fail("harness-redb3-writer", format!("the redb 3.0.0 writer panicked: {p}"))),
    }
    let tables = committed;
    let psp = committed_psp;
    let image = buf.0.lock().unwrap().clone();
    // open with this tree
    let cfg = cfg_default(tape);
    let backend = RecBackend::from_image(image, false);
    let b2 = backend.clone();
    let mut db = match catch(|| cfg.builder().create_with_backend(b2)) {
        Ok(Ok(db)) => db,
        Ok(Err(e)) => return Err(fail("old-to-new-open", format!("a file written by redb 3.0.0 cannot be opened by this tree: {e:?}"))),
        Err(p) => return Err(fail(&format!("panic:{}", normalize_sig(&p)), format!("panic opening a file written by redb 3.0.0: {p}"))),
    };
    verify_db_tables(&db, &tables).map_err(|s| {
        let mut f = stop_failure(s);
        f.signature = "old-to-new".into();
        f.msg = format!("file written by redb 3.0.0, read by this tree: {}", f.msg);
        f
    })?;
    let listed = list_psp(&db).map_err(stop_failure)?;
    if listed != psp {
        return Err(fail("old-to-new-savepoints", format!("this tree lists persistent savepoints {listed:?} in a file written by redb 3.0.0, expected {psp:?}")));
    }
    match catch(|| db.check_integrity()) {
        Ok(Ok(true)) => {}
        Ok(r) => return Err(fail("old-to-new-integrity", format!("check_integrity() of a file written by redb 3.0.0 returned {r:?}"))),
        Err(p) => return Err(fail(&format!("panic:{}", normalize_sig(&p)), format!("panic in check_integrity() of a file written by redb 3.0.0: {p}"))),
    }
    // write further with this tree, close, and hand the file back to redb 3.0.0
    let st = DbState { tables: Arc::new(tables.clone()), psp: Default::default() };
    continuation(&db, &st).map_err(|s| {
        let mut f = stop_failure(s);
        f.msg = format!("writing to a file created by redb 3.0.0: {}", f.msg);
        f
    })?;
    drop(db);
    // model after continuation: recompute by reading through this tree is circular; instead the
    // continuation is deterministic: re-apply it to the model
    let tables2 = continuation_model(&tables);
    check3(backend.image(), &tables2, &psp, true).map_err(|e| fail("old-new-old", format!("file written by redb 3.0.0, extended by this tree, read again by redb 3.0.0: {e}")))?;
    out.classes.push("direction: written by redb 3.0.0, read and extended by this tree, read again by redb 3.0.0");
    let big = tables.values().map(|t| t.entries()).sum::<usize>() >= 500;
    if big {
        out.classes.push("old->new image with >=500 entries (multi-level trees)");
        out.nontrivial = true;
    }
    Ok(())
}

/// the effect of `crash::continuation` on the model
fn continuation_model(tables: &Tables) -> Tables {
    use crate::tableops::TOp;
    let mut t = tables.clone();
    for (_, tm) in t.iter_mut() {
        for i in 0..6u64 {
            match tm {
                TableM::N { def, data } => {
                    let k = crate::genr::key(def.kty, 1000 + i as usize, 512);
                    data.insert(k, crate::genr::val_of(def.vty, 77 + i, 40 + (i as u8) * 37, 3, 512, 4096));
                }
                TableM::M { def, data } => {
                    let k = crate::genr::key(def.kty, 1000 + i as usize, 512);
                    data.entry(k).or_default().insert(crate::mmops::mm_val(def.vty, 900 + i, 3, 512));
                }
            }
        }
    }
    if !t.contains_key("zz-continue") {
        let mut tm = TableM::new(DEFS[0]);
        if let TableM::N { data, .. } = &mut tm {
            for i in 0..40u64 {
                data.insert(MV::U64(i), MV::Bytes(crate::genr::fill(i, 300)));
            }
        }
        t.insert("zz-continue".into(), tm);
    }
    let _ = TOp::Len;
    t
}

fn run_case(tape: &Tape, trace: bool) -> (Out, Result<(), Failure>) {
    let mut out = Out::default();
    let r = if tape.cfg[3] % 2 == 0 { new_to_old(tape, &mut out, trace) } else { old_to_new(tape, &mut out) };
    (out, r)
}

/// known finding: composite type names are written with classification byte 4, which redb 3.0.0
/// cannot parse
fn probe_composite() -> Result<(), Failure> {
    let backend = RecBackend::new(false);
    let db = redb::Builder::new().create_with_backend(backend.clone()).map_err(|e| fail("harness", format!("{e:?}")))?;
    let def: redb::TableDefinition<(u32, &str), Option<u64>> = redb::TableDefinition::new("composite");
    let w = db.begin_write().map_err(|e| fail("harness", format!("{e:?}")))?;
    {
        let mut t = w.open_table(def).map_err(|e| fail("harness", format!("{e:?}")))?;
        t.insert((1u32, "x"), Some(5u64)).map_err(|e| fail("harness", format!("{e:?}")))?;
    }
    w.commit().map_err(|e| fail("harness", format!("{e:?}")))?;
    drop(db);
    let res = catch(|| -> Result<Option<u64>, String> {
        let (db3, _b) = open3(backend.image())?;
        let rt = db3.begin_read().map_err(|e| format!("{e:?}"))?;
        let d3: redb3::TableDefinition<(u32, &str), Option<u64>> = redb3::TableDefinition::new("composite");
        let t = rt.open_table(d3).map_err(|e| format!("redb 3.0.0 open_table: {e:?}"))?;
        Ok(t.get((1u32, "x")).map_err(|e| format!("{e:?}"))?.and_then(|g| g.value()))
    });
    match res {
        Ok(Ok(Some(5))) => Ok(()),
        Ok(Ok(v)) => Err(fail("composite-typename-classification-4/new-to-old", format!("redb 3.0.0 reads {v:?} from a table with composite key/value types written by this tree"))),
        Ok(Err(e)) => Err(fail("composite-typename-classification-4/new-to-old", format!("a table with composite key/value types ((u32,&str) -> Option<u64>) written by this tree cannot be opened by redb 3.0.0: {e}"))),
        Err(p) => Err(fail("composite-typename-classification-4/new-to-old", format!("a table with composite key/value types ((u32,&str) -> Option<u64>) written by this tree makes redb 3.0.0 panic: {p}"))),
    }
}


/// Enumerated stage: every built-in type that is not a composite (the composites are the known
/// finding above), once as key and once as value, both directions. A table of that type written by
/// this tree must be opened and read by redb 3.0.0 under the same Rust type, and a table of that
/// type written by redb 3.0.0 into the same file must be opened and read by this tree.
macro_rules! ty_probe {
    ($out:ident, $n:ident, $label:expr, $k:ty, $v:ty, $kx:expr, $vx:expr) => {{
        $n += 1;
        let res = catch(|| -> Result<(), String> {
            let backend = RecBackend::new(false);
            let db = redb::Builder::new().create_with_backend(backend.clone()).map_err(|e| format!("harness: {e:?}"))?;
            let def: redb::TableDefinition<$k, $v> = redb::TableDefinition::new("t");
            let w = db.begin_write().map_err(|e| format!("harness: {e:?}"))?;
            {
                let mut t = w.open_table(def).map_err(|e| format!("harness: {e:?}"))?;
                t.insert($kx, $vx).map_err(|e| format!("harness: {e:?}"))?;
            }
            w.commit().map_err(|e| format!("harness: {e:?}"))?;
            drop(db);
            let want = Some(format!("{:?}", $vx));
            let (db3, b3) = open3(backend.image())?;
            {
                let rt = db3.begin_read().map_err(|e| format!("{e:?}"))?;
                let d3: redb3::TableDefinition<$k, $v> = redb3::TableDefinition::new("t");
                let t = rt.open_table(d3).map_err(|e| format!("redb 3.0.0 cannot open the table written by this tree: {e:?}"))?;
                let got = t.get($kx).map_err(|e| format!("{e:?}"))?.map(|g| format!("{:?}", g.value()));
                if got != want {
                    return Err(format!("redb 3.0.0 reads {got:?} where this tree wrote {want:?}"));
                }
            }
            let w3 = db3.begin_write().map_err(|e| format!("{e:?}"))?;
            {
                let d3: redb3::TableDefinition<$k, $v> = redb3::TableDefinition::new("u");
                let mut t = w3.open_table(d3).map_err(|e| format!("redb 3.0.0 open_table(u): {e:?}"))?;
                t.insert($kx, $vx).map_err(|e| format!("{e:?}"))?;
            }
            w3.commit().map_err(|e| format!("{e:?}"))?;
            drop(db3);
            let image = b3.0.lock().unwrap().clone();
            let db = redb::Builder::new().create_with_backend(RecBackend::from_image(image, false)).map_err(|e| format!("this tree cannot open the file after redb 3.0.0 wrote to it: {e:?}"))?;
            let rt = db.begin_read().map_err(|e| format!("{e:?}"))?;
            for name in ["t", "u"] {
                let d: redb::TableDefinition<$k, $v> = redb::TableDefinition::new(name);
                let t = rt.open_table(d).map_err(|e| format!("this tree cannot open table {name:?} (t: written by this tree, u: written by redb 3.0.0): {e:?}"))?;
                let got = t.get($kx).map_err(|e| format!("{e:?}"))?.map(|g| format!("{:?}", g.value()));
                if got != want {
                    return Err(format!("this tree reads {got:?} from table {name:?}, expected {want:?}"));
                }
            }
            Ok(())
        });
        match res {
            Ok(Ok(())) => {}
            Ok(Err(e)) => $out.push((fail("type-grid", format!("Table<{}>: {e}", $label)), None)),
            Err(p) => $out.push((fail("type-grid", format!("Table<{}>: panic: {p}", $label)), None)),
        }
    }};
}

fn probe_type_grid(out: &mut Vec<(Failure, Option<Tape>)>) -> u64 {
    let mut n = 0u64;
    ty_probe!(out, n, "u8,u16", u8, u16, 200u8, 60000u16);
    ty_probe!(out, n, "u16,u8", u16, u8, 60000u16, 200u8);
    ty_probe!(out, n, "u32,u128", u32, u128, 1u32 << 31, 1u128 << 100);
    ty_probe!(out, n, "u128,u32", u128, u32, 1u128 << 100, 1u32 << 31);
    ty_probe!(out, n, "u64,i64", u64, i64, 7u64, -7i64);
    ty_probe!(out, n, "i8,i16", i8, i16, -100i8, -30000i16);
    ty_probe!(out, n, "i16,i8", i16, i8, -30000i16, -100i8);
    ty_probe!(out, n, "i32,i128", i32, i128, i32::MIN, -(1i128 << 100));
    ty_probe!(out, n, "i128,i32", i128, i32, -(1i128 << 100), i32::MIN);
    ty_probe!(out, n, "i64,u64", i64, u64, -7i64, 7u64);
    ty_probe!(out, n, "bool,char", bool, char, true, '\u{10348}');
    ty_probe!(out, n, "char,bool", char, bool, '\u{e9}', false);
    ty_probe!(out, n, "(),f32", (), f32, (), 1.5f32);
    ty_probe!(out, n, "u64,f64", u64, f64, 1u64, -2.25f64);
    ty_probe!(out, n, "u64,()", u64, (), 1u64, ());
    ty_probe!(out, n, "&str,String", &str, String, "k\u{e9}", "v\u{20ac}".to_string());
    ty_probe!(out, n, "String,&str", String, &str, "k\u{e9}".to_string(), "v\u{20ac}");
    ty_probe!(out, n, "String,String", String, String, String::new(), "x".to_string());
    ty_probe!(out, n, "&[u8],&[u8]", &[u8], &[u8], &b"\x00\xff"[..], &b""[..]);
    ty_probe!(out, n, "&[u8],&str", &[u8], &str, &b"k"[..], "");
    n
}

impl Check for C19 {
    fn id(&self) -> &'static str {
        "C19"
    }
    fn rule(&self) -> String {
        "default geometry only (4 KiB pages, default regions; the only sizes either release lets users have), both crates over one shared in-memory buffer. Even tapes: a history (tables and multimaps over u64/&str keys and &[u8]/u64 values, bulk prefix-sharing &str keys so that this version shortens routing keys, persistent savepoints, non-durable commits, compaction, renames, deletes) is written by this tree; redb 3.0.0 must open the cleanly closed file, list the same tables and persistent savepoints, read identical contents, and pass its check_integrity(); two crash images of the same history (nothing / a random half of the unsynced writes kept) must be recovered by redb 3.0.0 to one commit point of the window. Odd tapes: redb 3.0.0 writes (4 tables, bulk keys, non-durable commits, aborts, a persistent savepoint), this tree opens the file, reads identical contents and savepoints, check_integrity() == Ok(true), writes a continuation workload into every table and a new table, closes; redb 3.0.0 reads the result and passes its integrity check. Non-trivial: an image with >= 1 shortened separator in a variable-width-key table or a multimap subtree (independent decoder), or an old->new image with >= 500 entries; distinct by tape hash. Composite key/value types are excluded from the new->old generator (known finding, probed once per run). Enumerated on every run: a grid of 20 tables covering every non-composite built-in type as key and as value (u8..u128, i8..i128, bool, char, (), f32, f64, &str, String, &[u8]); written by this tree and read by redb 3.0.0 under the same Rust type, then a second table of that type written by redb 3.0.0 and both read by this tree.".into()
    }
    fn assumptions(&self) -> Vec<String> {
        vec!["redb 3.0.0 is the only v3-format release available offline".into(), "a panic inside redb 3.0.0 while reading a file written by this tree counts as 'cannot be read'".into()]
    }
    fn plan(&self, tier: Tier) -> Plan {
        Plan { cases: tier.pick(2_500, 60_000), max_recs: tier.pick(80, 140), max_shrink_iters: 600, workers: 16 }
    }
    fn run(&self, tape: &Tape, want_sample: bool) -> Result<CaseOut, Failure> {
        EXCLUDED_OK_FALSE.with(|c| c.set(0));
        let (o, r) = run_case(tape, want_sample);
        r?;
        let mut out = CaseOut { evals: 1 + o.crash_images, ..Default::default() };
        out.excluded_known = EXCLUDED_OK_FALSE.with(|c| c.get());
        out.class_n("known finding excluded: redb 3.0.0 check_integrity() Ok(false) then Ok(true), data intact", out.excluded_known);
        for c in &o.classes {
            out.class(c);
        }
        out.class_n("crash images recovered by redb 3.0.0", o.crash_images);
        if o.nontrivial {
            let mut h = Fnv::new();
            h.write_u64(tape.hash64());
            out.nontrivial.push(h.finish());
        }
        if want_sample {
            out.sample = Some(json!({"direction": if tape.cfg[3] % 2 == 0 { "new->old" } else { "old->new->old" }, "records": tape.recs.len(), "ops": o.trace.map(|t| t.into_iter().take(40).collect::<Vec<_>>())}));
        }
        Ok(out)
    }
    fn extra(&self, _tier: Tier, _seed: u64, acc: &mut Acc) -> Vec<(Failure, Option<Tape>)> {
        acc.extra.insert("known_finding_probes_run".into(), json!(2));
        let mut v = vec![];
        let grid = probe_type_grid(&mut v);
        acc.extra.insert("type_grid_tables_both_directions".into(), json!(grid));
        for probe in [probe_composite as fn() -> Result<(), Failure>, probe_ok_false] {
            match catch(probe) {
                Ok(Ok(())) => {}
                Ok(Err(f)) => v.push((f, None)),
                Err(p) => v.push((fail(&format!("harness-panic:{}", normalize_sig(&p)), p), None)),
            }
        }
        v
    }
    fn render(&self, tape: &Tape) -> Value {
        let (o, r) = run_case(tape, true);
        json!({"direction": if tape.cfg[3] % 2 == 0 { "new->old" } else { "old->new->old" }, "ops": o.trace, "result": r.err().map(|f| f.msg)})
    }
}
