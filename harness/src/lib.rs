pub mod account;
pub mod backend;
pub mod c03;
pub mod c04;
pub mod c06c10;
pub mod c09;
pub mod c08cursor;
pub mod c08panic;
pub mod c12;
pub mod c13conc;
pub mod c14;
pub mod c15;
pub mod c16;
pub mod c17types;
pub mod c18;
pub mod c19;
pub mod c20;
pub mod crash;
pub mod crashchecks;
pub mod decoder;
pub mod driver;
pub mod faultchecks;
pub mod dyntab;
pub mod gates;
pub mod genr;
pub mod hist;
pub mod histchecks;
pub mod mmops;
pub mod mv;
pub mod sched;
pub mod tableops;
pub mod tape;

pub fn all_checks() -> Vec<Box<dyn driver::Check>> {
    vec![
        Box::new(c03::C03),
        Box::new(c04::C04),
        Box::new(c06c10::C06),
        Box::new(c09::C09),
        Box::new(c06c10::C10),
        Box::new(c12::C12),
        Box::new(c14::C14),
        Box::new(c15::C15),
        Box::new(c16::C16),
        Box::new(c18::C18),
        Box::new(c19::C19),
        Box::new(crashchecks::c01()),
        Box::new(crashchecks::c11()),
        Box::new(faultchecks::C08),
        Box::new(c20::C20),
        Box::new(histchecks::c02()),
        Box::new(histchecks::c05()),
        Box::new(histchecks::c07()),
        Box::new(histchecks::c13()),
        Box::new(histchecks::c17()),
    ]
}
