pub mod backend;
pub mod c04;
pub mod c09;
pub mod driver;
pub mod genr;
pub mod mmops;
pub mod mv;
pub mod tableops;
pub mod tape;

pub fn all_checks() -> Vec<Box<dyn driver::Check>> {
    vec![Box::new(c04::C04), Box::new(c09::C09)]
}
