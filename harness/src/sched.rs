//! `sched`: schedules as generated data (DESIGN.md 3.7). Worker threads park at the named pause
//! points of hook H2 and at call boundaries; the controller decides from the tape who runs next.

use std::cell::RefCell;
use std::sync::atomic::{AtomicU64, Ordering};
use std::sync::{Arc, Condvar, Mutex, Once};
use std::time::{Duration, Instant};

#[derive(Clone, Copy, Debug, PartialEq, Eq)]
pub enum WStatus {
    /// parked, waiting for the token
    Parked(&'static str),
    Running,
    /// holds no token but is executing (it was blocked inside redb when the controller moved on)
    Detached,
    Done,
}

pub struct CtlState {
    pub token: Option<usize>,
    pub status: Vec<WStatus>,
    /// remaining pause points the token holder may pass without yielding
    pub budget: u32,
    pub free_run: bool,
    pub points: Vec<(usize, &'static str)>,
    pub detaches: u32,
}

pub struct Ctl {
    pub st: Mutex<CtlState>,
    pub cv: Condvar,
}

/// what a registered thread does at a pause point
pub trait PauseHandler: Send + Sync {
    fn at(&self, me: usize, point: &'static str);
}

impl PauseHandler for Ctl {
    fn at(&self, me: usize, point: &'static str) {
        self.park(me, point);
    }
}

thread_local! {
    static ME: RefCell<Option<(Arc<dyn PauseHandler>, usize)>> = const { RefCell::new(None) };
}

/// register the current thread with an arbitrary handler (directed scenarios)
pub fn register_handler(h: Arc<dyn PauseHandler>, id: usize) {
    install_hook();
    ME.with(|m| *m.borrow_mut() = Some((h, id)));
}

static INSTALL: Once = Once::new();

pub fn install_hook() {
    INSTALL.call_once(|| {
        redb::verif_sched::set_pause_hook(Some(Arc::new(|point| {
            let me = ME.with(|m| m.borrow().clone());
            if let Some((h, id)) = me {
                h.at(id, point);
            }
        })));
    });
}

impl Ctl {
    pub fn new(n: usize, free_run: bool) -> Arc<Ctl> {
        Arc::new(Ctl {
            st: Mutex::new(CtlState { token: None, status: vec![WStatus::Parked("start"); n], budget: 0, free_run, points: vec![], detaches: 0 }),
            cv: Condvar::new(),
        })
    }

    pub fn register(self: &Arc<Self>, id: usize) {
        let h: Arc<dyn PauseHandler> = self.clone();
        ME.with(|m| *m.borrow_mut() = Some((h, id)));
    }

    pub fn unregister() {
        ME.with(|m| *m.borrow_mut() = None);
    }

    /// called by a worker at a pause point or a call boundary
    pub fn park(&self, me: usize, point: &'static str) {
        let mut g = self.st.lock().unwrap_or_else(|e| e.into_inner());
        if g.free_run {
            return;
        }
        g.points.push((me, point));
        if g.token == Some(me) && g.budget > 0 && point != "start" {
            g.budget -= 1;
            return;
        }
        g.status[me] = WStatus::Parked(point);
        if g.token == Some(me) {
            g.token = None;
        }
        self.cv.notify_all();
        while g.token != Some(me) && !g.free_run {
            g = self.cv.wait(g).unwrap_or_else(|e| e.into_inner());
        }
        g.status[me] = WStatus::Running;
    }

    pub fn done(&self, me: usize) {
        let mut g = self.st.lock().unwrap_or_else(|e| e.into_inner());
        g.status[me] = WStatus::Done;
        if g.token == Some(me) {
            g.token = None;
        }
        self.cv.notify_all();
    }

    /// Drive the workers to completion. `decide(n_candidates) -> (index, budget)` comes from the
    /// tape. Returns false if the schedule had to be released (no progress).
    pub fn drive(&self, mut decide: impl FnMut(usize) -> (usize, u32)) -> bool {
        let hint = Duration::from_millis(25);
        let start = Instant::now();
        let mut g = self.st.lock().unwrap_or_else(|e| e.into_inner());
        loop {
            if g.status.iter().all(|s| *s == WStatus::Done) {
                return true;
            }
            if start.elapsed() > Duration::from_secs(20) {
                g.free_run = true;
                self.cv.notify_all();
                return false;
            }
            let cands: Vec<usize> = (0..g.status.len()).filter(|i| matches!(g.status[*i], WStatus::Parked(_))).collect();
            if cands.is_empty() {
                // everyone is running detached or done: wait for someone to park or finish
                let (ng, _) = self.cv.wait_timeout(g, hint).unwrap_or_else(|e| e.into_inner());
                g = ng;
                continue;
            }
            let (i, budget) = decide(cands.len());
            let w = cands[i % cands.len()];
            g.token = Some(w);
            g.budget = budget;
            self.cv.notify_all();
            // wait until the worker parks again / finishes, or appears blocked
            let t0 = Instant::now();
            loop {
                let (ng, _) = self.cv.wait_timeout(g, hint).unwrap_or_else(|e| e.into_inner());
                g = ng;
                if g.token != Some(w) {
                    break;
                }
                if t0.elapsed() >= hint {
                    // scheduling hint only: the worker seems blocked inside redb; let another run.
                    // It keeps executing without the token and parks at its next pause point.
                    let others_parked = (0..g.status.len()).any(|i| i != w && matches!(g.status[i], WStatus::Parked(_)));
                    if others_parked {
                        g.status[w] = WStatus::Detached;
                        g.token = None;
                        g.detaches += 1;
                        break;
                    }
                    if t0.elapsed() > Duration::from_secs(10) {
                        g.free_run = true;
                        self.cv.notify_all();
                        return false;
                    }
                }
            }
        }
    }
}

/// global logical clock for history events
pub static CLOCK: AtomicU64 = AtomicU64::new(0);

pub fn tick() -> u64 {
    CLOCK.fetch_add(1, Ordering::SeqCst)
}
