//! C06 (every page has exactly one owner) and C10 (every committed image is a well-formed,
//! checksummed forest): history tapes + the independent decoder

use crate::account::*;
use crate::driver::{CaseOut, Check, Failure, Plan, Tier};
use crate::hist::*;
use crate::tableops::{R, Stop};
use crate::tape::{Fnv, Tape};
use crate::{sensure, sfail};
use serde_json::{Value, json};
use std::collections::BTreeSet;

pub struct C06;
pub struct C10;

fn p_c06(_t: &Tape) -> Profile {
    let mut p = Profile::base();
    p.w_commit = 34;
    p.w_abort = 8;
    p.w_begin = 14;
    p.w_begin_read = 8;
    p.w_drop_reader = 8;
    p.w_reader_probe = 2;
    p.w_sp_eph = 6;
    p.w_sp_pers = 6;
    p.w_restore = 8;
    p.w_del_pers = 6;
    p.w_drop_eph = 6;
    p.w_delete_table = 5;
    p.w_rename = 3;
    p.w_reopen = 3;
    p.w_compact = 3;
    p.w_check = 1;
    p.mismatch = 0;
    p.key_universe = 64;
    p.verify_each_commit = false;
    p
}

#[derive(Default)]
struct C06Out {
    steps_checked: u64,
    max_pending: usize,
    pinned_then_drained: bool,
    drain_commits_max: u32,
    trace: Option<Vec<String>>,
}

/// Closing steps shared by C05, C06 and C07: drop every handle, delete the persistent savepoints
/// the model knows, then at most 8 empty durable commits must drain every pending-free list with
/// the independent accounting exact throughout. Returns the number of commits it took.
pub fn final_drain(m: &mut Machine) -> R<u32> {
    m.finish()?;
    // boundedness: once nothing holds old pages, a few empty durable commits drain every
    // pending-free list, and allocated == reachable
    m.drop_all_handles();
    let ids: Vec<u64> = m.last().psp.keys().copied().collect();
    if !ids.is_empty() {
        m.begin_write(Dur::Immediate, false, false)?;
        {
            let w = m.w.as_mut().unwrap();
            let txn = w.txn.as_ref().unwrap();
            for id in &ids {
                match txn.delete_persistent_savepoint(*id) {
                    Ok(true) => {
                        w.work.psp.remove(id);
                    }
                    Ok(false) => sfail!("savepoint-lost", "persistent savepoint {id} of the model could not be deleted (not found)"),
                    Err(e) => return Err(Stop::Io(format!("{e:?}"))),
                }
            }
            w.psp_modified = true;
        }
        m.commit()?;
    }
    let mut drained_after = None;
    for i in 0..8u32 {
        let a = match account(m.db.as_ref().unwrap()) {
            Ok(a) => a,
            Err(e) => sfail!("page-accounting", "during the final drain (empty commit {i}): {e}"),
        };
        if a.pending_free == 0 {
            drained_after = Some(i);
            break;
        }
        m.begin_write(Dur::Immediate, false, false)?;
        m.commit()?;
    }
    let Some(n) = drained_after else {
        let a = account(m.db.as_ref().unwrap()).map_err(|e| Stop::Fail(Failure::new("page-accounting", e)))?;
        sfail!("pending-free-not-drained", "with no reader and no savepoint alive, {} pages are still pending free after 8 empty durable commits (storage does not return to its level)", a.pending_free);
    };
    // nothing is alive: after one more durable commit (a pending non-durable commit legitimately
    // pins the last durable snapshot until then) the transaction tracker must not pin anything
    m.begin_write(Dur::Immediate, false, false)?;
    m.commit()?;
    let live = m.db.as_ref().unwrap().verif_snapshot().live_read_transactions;
    if !live.is_empty() {
        sfail!("tracker-leak", "every reader and savepoint is gone, but the transaction tracker still pins snapshots {live:?} (id, references)");
    }
    Ok(n)
}

fn run_c06(tape: &Tape, trace: bool) -> (C06Out, Result<(), Failure>) {
    let mut out = C06Out::default();
    let r = (|| -> R {
        let mut m = Machine::new(decode_cfg(tape), p_c06(tape), false, trace)?;
        m.set_bulk_from(tape);
        let mut pinned_seen = false;
        for rec in &tape.recs {
            let res = m.exec(rec);
            out.trace = m.trace.clone();
            res?;
            if m.w.is_none() {
                match account(m.db.as_ref().unwrap()) {
                    Ok(a) => {
                        out.steps_checked += 1;
                        out.max_pending = out.max_pending.max(a.pending_free);
                        let holders = !m.readers.is_empty() || m.sps.iter().any(|s| !s.invalid);
                        if a.pending_free > 0 && holders {
                            pinned_seen = true;
                        }
                    }
                    Err(e) => sfail!("page-accounting", "after step {} ({}): {e}", m.step, m.trace.as_ref().and_then(|t| t.last().cloned()).unwrap_or_default()),
                }
            }
        }
        let n = final_drain(&mut m)?;
        out.drain_commits_max = n;
        if pinned_seen {
            out.pinned_then_drained = true;
        }
        // second opinion
        match m.db.as_mut().unwrap().check_integrity() {
            Ok(true) => {}
            r => sfail!("check-integrity-disagrees", "check_integrity() returned {r:?} at the end of a history whose independent accounting is exact"),
        }
        sensure!(m.backend.monitor_violations().is_empty(), "backend-contract", "backend contract violated");
        Ok(())
    })();
    (out, r.map_err(stop_failure))
}

impl Check for C06 {
    fn id(&self) -> &'static str {
        "C06"
    }
    fn rule(&self) -> String {
        "hist tapes (churn, reader and savepoint lifetimes, aborts, restores, table deletes, reopen, compaction, all durabilities and commit strategies); after every API call that leaves no write transaction open, an accounting independent of check_integrity is computed from the snapshot hook and the independent decoder: A = allocated order-0 pages of every region allocator; R = pages reachable from the current data and system roots (catalogs, tables, multimap subtrees; the decoder refuses a page reached twice); F = pages named by the data/system pending-free tables of the current system tree plus the in-memory pending-free records of non-durable commits; required: F duplicate-free, R and F disjoint, A == R u F exactly; every page of the last durable commit and of every persistent savepoint's tree is in A. At the end all readers and savepoints are dropped/deleted and at most 8 empty durable commits must drain F completely; check_integrity() must then agree (Ok(true)). Non-trivial: a boundary at which F is non-empty while a reader or savepoint is alive, in a history whose final drain succeeds; distinct by tape hash.".into()
    }
    fn assumptions(&self) -> Vec<String> {
        vec!["checked at transaction boundaries only (inside a transaction the uncommitted allocations are not attributed)".into(), "the decoder is a second reading of the format, see DESIGN.md 3.4".into(), "snapshot and page-peek hooks are read-only (hooks H3)".into()]
    }
    fn fuzz_runs(&self) -> u64 {
        100_000
    }
    fn plan(&self, tier: Tier) -> Plan {
        Plan { cases: tier.pick(12_000, 300_000), max_recs: tier.pick(110, 180), max_shrink_iters: 2500, workers: 16 }
    }
    fn run(&self, tape: &Tape, want_sample: bool) -> Result<CaseOut, Failure> {
        let (o, r) = run_c06(tape, want_sample);
        r?;
        let mut out = CaseOut { evals: o.steps_checked.max(1), ..Default::default() };
        out.class_n("boundaries with exact accounting verified", o.steps_checked);
        if o.pinned_then_drained {
            let mut h = Fnv::new();
            h.write_u64(tape.hash64());
            out.nontrivial.push(h.finish());
            out.class("pending-free pages pinned by a reader/savepoint, later drained");
        }
        if o.max_pending > 0 {
            out.class("history with pending-free pages at some boundary");
        }
        out.classes.push((
            match o.drain_commits_max {
                0 => "final drain needed 0 empty commits",
                1 => "final drain needed 1 empty commit",
                2 => "final drain needed 2 empty commits",
                3 => "final drain needed 3 empty commits",
                _ => "final drain needed >=4 empty commits",
            },
            1,
        ));
        if want_sample {
            out.sample = Some(json!({"config": decode_cfg(tape).json(), "ops": o.trace.map(|t| t.into_iter().take(60).collect::<Vec<_>>()), "boundaries_checked": o.steps_checked, "max_pending_free_pages": o.max_pending}));
        }
        Ok(out)
    }
    fn render(&self, tape: &Tape) -> Value {
        let (o, r) = run_c06(tape, true);
        json!({"config": decode_cfg(tape).json(), "ops_until_failure": o.trace, "result": r.err().map(|f| f.msg)})
    }
}

// ---------------------------------------------------------------------------------------------

fn p_c10(_t: &Tape) -> Profile {
    let mut p = Profile::base();
    p.w_commit = 34;
    p.w_begin = 14;
    p.nondurable = 50;
    p.w_sp_pers = 5;
    p.w_sp_eph = 2;
    p.w_restore = 4;
    p.w_del_pers = 3;
    p.w_delete_table = 3;
    p.w_rename = 2;
    p.w_reopen = 4;
    p.w_compact = 3;
    p.w_begin_read = 1;
    p.w_reader_probe = 0;
    p.w_take_owned = 0;
    p.w_owned_step = 0;
    p.mismatch = 0;
    p.key_universe = 120;
    p.verify_each_commit = false;
    p
}

#[derive(Default)]
struct C10Out {
    images: u64,
    nontrivial: Vec<u64>,
    max_height: u32,
    subtree_images: u64,
    shortened: u64,
    kept_clean_pages: u64,
    saved_state_images: u64,
    by_kind: std::collections::BTreeMap<&'static str, u64>,
    trace: Option<Vec<String>>,
}

fn run_c10(tape: &Tape, trace: bool) -> (C10Out, Result<(), Failure>) {
    let mut out = C10Out::default();
    let r = (|| -> R {
        let mut m = Machine::new(decode_cfg(tape), p_c10(tape), true, trace)?;
        m.capture = true;
        let res = m.run_tape(tape);
        out.trace = m.trace.clone();
        res?;
        let mut prev_pages: BTreeSet<crate::decoder::PageKey> = BTreeSet::new();
        for (idx, kind, img) in &m.images {
            let st = &m.commits[*idx];
            let psp: BTreeSet<u64> = st.psp.keys().copied().collect();
            match check_image(img, &st.tables, &psp) {
                Ok(f) => {
                    out.images += 1;
                    *out.by_kind.entry(kind).or_default() += 1;
                    out.max_height = out.max_height.max(f.max_height);
                    if f.subtrees > 0 {
                        out.subtree_images += 1;
                    }
                    if f.has_saved_allocator_state {
                        out.saved_state_images += 1;
                    }
                    out.shortened += u64::from(f.shortened_separators);
                    let kept = f.page_set.intersection(&prev_pages).count();
                    if kept > 0 {
                        out.kept_clean_pages += 1;
                    }
                    if f.max_height >= 3 && f.subtrees > 0 && kept > 0 {
                        let mut h = Fnv::new();
                        h.write_u64(tape.hash64());
                        h.write_u64(*idx as u64);
                        out.nontrivial.push(h.finish());
                    }
                    prev_pages = f.page_set;
                }
                Err(e) => sfail!("image-malformed", "image after {kind} (commit point S{idx}) is not a well-formed checksummed forest holding that commit point: {e}"),
            }
        }
        Ok(())
    })();
    (out, r.map_err(stop_failure))
}

impl Check for C10 {
    fn id(&self) -> &'static str {
        "C10"
    }
    fn rule(&self) -> String {
        "hist tapes (all table shapes incl. multimap inline and subtree values, persistent savepoints, quick-repair, 2PC and non-durable commits, compaction, reopen) on a recording backend; the storage image as of the sync_data that ends every durable commit, every completed compaction and every clean close is rebuilt from the log and decoded by a reader written from docs/design.md that shares no code with redb (checksums from the xxhash-rust crate): primary slot checksum; every child checksum in every branch and the root checksums (leaf: up to the last value end, branch: up to the last key end); keys strictly increasing under the stored key type's order; every routing key bounds the subtrees on both sides; all leaves at equal depth; stored entry counts (tree headers, table lengths, multimap pair counts, catalog size in the slot) equal the entries present; no page reached twice anywhere in the forest incl. persistent savepoint trees; pages inside the layout; pending-free lists disjoint from reachable pages; a saved allocator state that names this commit equals reachable + pending free; decoded contents and persistent savepoint ids equal the model's commit point. Non-trivial: an image with height >= 3 (catalog + table + subtree), a multimap subtree, and pages kept unchanged from the previous image; distinct by (tape, commit index).".into()
    }
    fn assumptions(&self) -> Vec<String> {
        vec!["table definition and dynamic collection records are documented only in source comments; the decoder's reading is DESIGN.md Appendix C".into(), "comparators exist for the key types the harness creates (u64, &str, &[u8]) and the four internal key types".into()]
    }
    fn fuzz_runs(&self) -> u64 {
        60_000
    }
    fn plan(&self, tier: Tier) -> Plan {
        Plan { cases: tier.pick(5_000, 120_000), max_recs: tier.pick(110, 170), max_shrink_iters: 2000, workers: 16 }
    }
    fn run(&self, tape: &Tape, want_sample: bool) -> Result<CaseOut, Failure> {
        let (o, r) = run_c10(tape, want_sample);
        r?;
        let mut out = CaseOut { evals: o.images.max(1), ..Default::default() };
        out.nontrivial = o.nontrivial;
        out.class_n("images decoded", o.images);
        out.class_n("images with a multimap subtree", o.subtree_images);
        out.class_n("images keeping pages of the previous image", o.kept_clean_pages);
        out.class_n("images with a saved allocator state for their own commit (compared with R u F)", o.saved_state_images);
        out.class_n("shortened separators seen", o.shortened);
        if o.max_height >= 3 {
            out.class("history with an image of height >= 3");
        }
        for (k, n) in o.by_kind {
            out.class_n(k, n);
        }
        if want_sample {
            out.sample = Some(json!({"config": decode_cfg(tape).json(), "ops": o.trace.map(|t| t.into_iter().take(50).collect::<Vec<_>>()), "images_decoded": o.images}));
        }
        Ok(out)
    }
    fn render(&self, tape: &Tape) -> Value {
        let (o, r) = run_c10(tape, true);
        json!({"config": decode_cfg(tape).json(), "ops": o.trace, "images_decoded_before_failure": o.images, "result": r.err().map(|f| f.msg)})
    }
}
