//! Multimap operation interpreter with a `BTreeMap<K, BTreeSet<V>>` model (C09; reused by hist)

use crate::genr::{self, DbCfg};
use crate::mv::{KeyFam, MV, Ty};
use crate::tableops::{Consume, R, Stop, bound_ref, in_range};
use crate::tape::Rec;
use crate::{io, sensure, sfail};
use redb::{MultimapTable, ReadableMultimapTable, ReadableTableMetadata};
use std::collections::{BTreeMap, BTreeSet, VecDeque};
use std::ops::Bound;

pub type MModel = BTreeMap<MV, BTreeSet<MV>>;

#[derive(Clone, Debug)]
pub enum MOp {
    Insert { k: MV, v: MV },
    /// insert `n` small distinct values for one key (drives inline -> subtree conversion)
    InsertMany { k: MV, base: u64, n: u32, vlen: usize },
    Remove { k: MV, v: MV },
    /// remove up to `n` existing values of the key, from the front or the back
    RemoveMany { k: MV, n: u32, back: bool },
    /// remove the existing value of rank `rank` (mod the number of values) of the key
    RemoveRank { k: MV, rank: u16 },
    RemoveAll { k: MV, c: Consume },
    Get { k: MV, c: Consume },
    Range { lo: Bound<MV>, hi: Bound<MV>, c: Consume, inner: Consume },
    Len,
    Scan,
}

impl MOp {
    pub fn mutates(&self) -> bool {
        !matches!(self, MOp::Get { .. } | MOp::Range { .. } | MOp::Len | MOp::Scan)
    }
}

fn dec_bound(r: &mut Rec, kty: Ty, universe: usize, page: usize) -> Bound<MV> {
    let kind = r.u8() % 3;
    let k = genr::rec_key(r, kty, universe, page);
    match kind {
        0 => Bound::Unbounded,
        1 => Bound::Included(k),
        _ => Bound::Excluded(k),
    }
}

/// value universe for multimap values: small index space so that removes hit, lengths steered
/// around the inline limit (p/2) by the class byte
pub fn mm_val(vty: Ty, idx: u64, cls: u8, page: usize) -> MV {
    match vty {
        Ty::U64 => MV::U64(idx.wrapping_mul(0x9E3779B97F4A7C15) ^ (idx << 56)),
        Ty::Str => {
            if idx == 0 {
                return MV::Str(String::new());
            }
            let len = mm_len(cls, page).max(4);
            let mut s = format!("{idx:04}");
            let raw = genr::fill(idx, len - 4);
            s.extend(raw.iter().map(|b| (b'a' + b % 26) as char));
            MV::Str(s)
        }
        _ => {
            if idx == 0 {
                return MV::Bytes(vec![]);
            }
            let len = mm_len(cls, page).max(2);
            let mut v = idx.to_be_bytes()[6..].to_vec();
            v.extend(genr::fill(idx ^ 0xabcdef, len - 2));
            MV::Bytes(v)
        }
    }
}

fn mm_len(cls: u8, page: usize) -> usize {
    // the length is a function of the value index class only, so the same idx gives the same value
    match cls % 16 {
        0 => 0,
        1..=8 => 2 + (cls as usize % 7),
        9 | 10 => page / 16,
        11 => page / 4 - 3,
        12 => page / 2 - 40,
        13 => page / 2 - 8,
        14 => page / 2 + 5,
        _ => page + 3,
    }
}

pub fn decode_mop(r: &mut Rec, kty: Ty, vty: Ty, cfg: &DbCfg, universe: usize, vuniverse: usize) -> MOp {
    const W: [u32; 10] = [40, 12, 10, 6, 5, 8, 6, 2, 3, 14];
    let page = cfg.page_size;
    let kind = r.weighted(&W);
    // value index determines its length class -> same idx is the same value
    let val = |r: &mut Rec| {
        let idx = r.idx16(vuniverse) as u64;
        let cls = (idx.wrapping_mul(11) % 251) as u8;
        mm_val(vty, idx, cls, page)
    };
    match kind {
        0 => {
            let k = genr::rec_key(r, kty, universe, page);
            let v = val(r);
            MOp::Insert { k, v }
        }
        1 => {
            let k = genr::rec_key(r, kty, universe, page);
            let base = u64::from(r.u16()) % (vuniverse as u64);
            let n = 1 + u32::from(r.u8()) % 96;
            let vlen = [1usize, 4, 9, 24, 60][(r.u8() % 5) as usize];
            MOp::InsertMany { k, base, n, vlen }
        }
        2 => {
            let k = genr::rec_key(r, kty, universe, page);
            let v = val(r);
            MOp::Remove { k, v }
        }
        3 => {
            let k = genr::rec_key(r, kty, universe, page);
            let n = 1 + u32::from(r.u8()) % 96;
            let back = r.bool();
            MOp::RemoveMany { k, n, back }
        }
        4 => {
            let k = genr::rec_key(r, kty, universe, page);
            MOp::RemoveAll { k, c: Consume::decode(r) }
        }
        5 => {
            let k = genr::rec_key(r, kty, universe, page);
            MOp::Get { k, c: Consume::decode(r) }
        }
        6 => {
            let lo = dec_bound(r, kty, universe, page);
            let hi = dec_bound(r, kty, universe, page);
            let c = Consume::decode(r);
            let inner = Consume::decode(r);
            MOp::Range { lo, hi, c, inner }
        }
        7 => MOp::Len,
        8 => MOp::Scan,
        _ => {
            let k = genr::rec_key(r, kty, universe, page);
            MOp::RemoveRank { k, rank: r.u16() }
        }
    }
}

/// many-value helper: value number i of a run (small, distinct, ordered by i for fixed vlen)
pub fn run_val(vty: Ty, base: u64, i: u32, vlen: usize) -> MV {
    let idx = base.wrapping_mul(1000).wrapping_add(u64::from(i));
    match vty {
        Ty::U64 => MV::U64(idx),
        Ty::Str => MV::Str(format!("r{idx:0w$}", w = vlen.max(1))),
        _ => {
            let mut v = vec![0xEEu8];
            v.extend_from_slice(&idx.to_be_bytes());
            while v.len() < vlen {
                v.push(0x55);
            }
            MV::Bytes(v)
        }
    }
}

/// drive a MultimapValue-like iterator against the expected ordered values; checks len() as it goes
macro_rules! drive_values {
    ($VF:ty, $what:expr, $it:expr, $expected:expr, $c:expr) => {{
        let mut it = $it;
        let c: &Consume = $c;
        let what: &str = $what;
        let mut dq: VecDeque<MV> = $expected.into();
        let mut step = 0usize;
        sensure!(it.len() == dq.len() as u64, "mm-value-len", "{what}: len() is {} before iteration, model has {} values", it.len(), dq.len());
        sensure!(it.is_empty() == dq.is_empty(), "mm-value-len", "{what}: is_empty() is {} but model has {} values", it.is_empty(), dq.len());
        loop {
            if step >= c.limit && !c.finish {
                break;
            }
            let back = if step < c.limit { (c.pat >> (step % 16)) & 1 == 1 } else { false };
            let got = if back { it.next_back() } else { it.next() };
            let exp = if back { dq.pop_back() } else { dq.pop_front() };
            match (got, exp) {
                (None, None) => {
                    sensure!(it.next().is_none(), "iter-after-end", "{what}: next() returned a value after exhaustion");
                    sensure!(it.next_back().is_none(), "iter-after-end", "{what}: next_back() returned a value after exhaustion");
                    break;
                }
                (Some(Err(e)), _) => return Err(Stop::Io(format!("{e:?}"))),
                (Some(Ok(v)), Some(ev)) => {
                    let gv = <$VF>::from(v.value());
                    sensure!(gv == ev, "mm-value", "{what}: step {step} ({}) yielded {gv:?}, model says {ev:?}", if back { "back" } else { "front" });
                }
                (Some(Ok(v)), None) => {
                    sfail!("mm-value-extra", "{what}: yielded {:?} but the model set is exhausted", <$VF>::from(v.value()));
                }
                (None, Some(ev)) => {
                    sfail!("mm-value-missing", "{what}: iterator ended but the model still has {ev:?}");
                }
            }
            sensure!(it.len() == dq.len() as u64, "mm-value-len", "{what}: len() is {} after {} steps, model has {} values left", it.len(), step + 1, dq.len());
            step += 1;
        }
    }};
}
pub(crate) use drive_values;

fn model_vals(m: &MModel, k: &MV) -> Vec<MV> {
    m.get(k).map(|s| s.iter().cloned().collect()).unwrap_or_default()
}

pub fn mm_read_op<KF: KeyFam, VF: KeyFam, T: ReadableMultimapTable<KF::T, VF::T>>(
    t: &T,
    m: &MModel,
    op: &MOp,
) -> R {
    match op {
        MOp::Get { k, c } => {
            let it = io!(t.get(KF::to(k)));
            let what = format!("get({k:?})");
            drive_values!(VF, &what, it, model_vals(m, k), c);
        }
        MOp::Range { lo, hi, c, inner } => {
            let mut it = io!(t.range((bound_ref::<KF>(lo), bound_ref::<KF>(hi))));
            let mut dq: VecDeque<(MV, Vec<MV>)> = m
                .iter()
                .filter(|(k, _)| in_range(k, lo, hi))
                .map(|(k, s)| (k.clone(), s.iter().cloned().collect()))
                .collect();
            let mut step = 0usize;
            loop {
                if step >= c.limit && !c.finish {
                    break;
                }
                let back = if step < c.limit { (c.pat >> (step % 16)) & 1 == 1 } else { false };
                let got = if back { it.next_back() } else { it.next() };
                let exp = if back { dq.pop_back() } else { dq.pop_front() };
                match (got, exp) {
                    (None, None) => {
                        sensure!(it.next().is_none(), "iter-after-end", "multimap range: entry after exhaustion");
                        sensure!(it.next_back().is_none(), "iter-after-end", "multimap range: entry after exhaustion (back)");
                        break;
                    }
                    (Some(Err(e)), _) => return Err(Stop::Io(format!("{e:?}"))),
                    (Some(Ok((k, vals))), Some((ek, evals))) => {
                        let gk = KF::from(k.value());
                        sensure!(gk == ek, "mm-range-key", "multimap range({lo:?},{hi:?}) step {step} yielded key {gk:?}, model says {ek:?}");
                        let what = format!("range values of {ek:?}");
                        drive_values!(VF, &what, vals, evals, inner);
                    }
                    (Some(Ok((k, _))), None) => {
                        sfail!("mm-range-extra", "multimap range yielded key {:?} but the model range is exhausted", KF::from(k.value()));
                    }
                    (None, Some((ek, _))) => {
                        sfail!("mm-range-missing", "multimap range ended but the model still has key {ek:?}");
                    }
                }
                step += 1;
            }
        }
        MOp::Len => {
            let got = io!(t.len());
            let exp: usize = m.values().map(|s| s.len()).sum();
            sensure!(got == exp as u64, "mm-len", "multimap len() returned {got}, model has {exp} pairs");
            let e = io!(t.is_empty());
            sensure!(e == (exp == 0), "mm-is_empty", "multimap is_empty() returned {e}, model has {exp} pairs");
        }
        MOp::Scan => mm_full_compare::<KF, VF, T>(t, m)?,
        _ => {}
    }
    Ok(())
}

pub fn mm_full_compare<KF: KeyFam, VF: KeyFam, T: ReadableMultimapTable<KF::T, VF::T>>(t: &T, m: &MModel) -> R {
    mm_read_op::<KF, VF, T>(t, m, &MOp::Len)?;
    let full = Consume::full();
    mm_read_op::<KF, VF, T>(
        t,
        m,
        &MOp::Range { lo: Bound::Unbounded, hi: Bound::Unbounded, c: full.clone(), inner: full.clone() },
    )?;
    let back = Consume { pat: 0xffff, limit: usize::MAX, finish: true };
    mm_read_op::<KF, VF, T>(
        t,
        m,
        &MOp::Range { lo: Bound::Unbounded, hi: Bound::Unbounded, c: back.clone(), inner: back },
    )?;
    Ok(())
}

#[derive(Default, Clone, Debug)]
pub struct MStats {
    pub ops: u32,
    /// keys whose value set crossed the inline limit upwards / downwards (by serialized size estimate)
    pub grew_past_inline: u32,
    pub shrank_below_inline: u32,
    pub max_simultaneous_subtree_keys: u32,
    pub max_values_per_key: usize,
}

/// conservative estimate: does this key's value set need a subtree? (inline leaf must be < p/2)
pub fn needs_subtree(vals: &BTreeSet<MV>, fixed: Option<usize>, page: usize) -> bool {
    let n = vals.len();
    let data: usize = vals.iter().map(|v| v.byte_len()).sum();
    let overhead = 4 + if fixed.is_some() { 0 } else { 4 * n } + 1;
    data + overhead >= page / 2
}

pub fn mm_apply<KF: KeyFam, VF: KeyFam>(
    t: &mut MultimapTable<'_, KF::T, VF::T>,
    m: &mut MModel,
    op: &MOp,
    st: &mut MStats,
    page: usize,
    vty: Ty,
) -> R {
    st.ops += 1;
    let fixed = <VF::T as redb::Value>::fixed_width();
    let before: Option<(MV, bool)> = match op {
        MOp::Insert { k, .. } | MOp::InsertMany { k, .. } | MOp::Remove { k, .. } | MOp::RemoveMany { k, .. } | MOp::RemoveRank { k, .. } | MOp::RemoveAll { k, .. } => {
            Some((k.clone(), m.get(k).is_some_and(|s| needs_subtree(s, fixed, page))))
        }
        _ => None,
    };
    match op {
        MOp::Insert { k, v } => {
            let existed = io!(t.insert(KF::to(k), VF::to(v)));
            let exp = !m.entry(k.clone()).or_default().insert(v.clone());
            sensure!(existed == exp, "mm-insert", "multimap insert({k:?},{v:?}) returned existed={existed}, model says {exp}");
        }
        MOp::InsertMany { k, base, n, vlen } => {
            for i in 0..*n {
                let v = run_val(vty, *base, i, *vlen);
                let existed = io!(t.insert(KF::to(k), VF::to(&v)));
                let exp = !m.entry(k.clone()).or_default().insert(v.clone());
                sensure!(existed == exp, "mm-insert", "multimap insert({k:?},{v:?}) returned existed={existed}, model says {exp}");
            }
        }
        MOp::Remove { k, v } => {
            let existed = io!(t.remove(KF::to(k), VF::to(v)));
            let exp = m.get_mut(k).is_some_and(|s| s.remove(v));
            if m.get(k).is_some_and(|s| s.is_empty()) {
                m.remove(k);
            }
            sensure!(existed == exp, "mm-remove", "multimap remove({k:?},{v:?}) returned existed={existed}, model says {exp}");
        }
        MOp::RemoveMany { k, n, back } => {
            let vals = model_vals(m, k);
            let picks: Vec<MV> = if *back {
                vals.iter().rev().take(*n as usize).cloned().collect()
            } else {
                vals.iter().take(*n as usize).cloned().collect()
            };
            for v in picks {
                let existed = io!(t.remove(KF::to(k), VF::to(&v)));
                sensure!(existed, "mm-remove", "multimap remove({k:?},{v:?}) returned existed=false for a value the model holds");
                let s = m.get_mut(k).unwrap();
                s.remove(&v);
                if s.is_empty() {
                    m.remove(k);
                }
            }
        }
        MOp::RemoveRank { k, rank } => {
            let vals = model_vals(m, k);
            if !vals.is_empty() {
                let v = vals[*rank as usize % vals.len()].clone();
                let existed = io!(t.remove(KF::to(k), VF::to(&v)));
                sensure!(existed, "mm-remove", "multimap remove({k:?},{v:?}) returned existed=false for a value the model holds");
                let s = m.get_mut(k).unwrap();
                s.remove(&v);
                if s.is_empty() {
                    m.remove(k);
                }
            } else {
                let v = run_val(vty, 1, 1, 4);
                let existed = io!(t.remove(KF::to(k), VF::to(&v)));
                sensure!(!existed, "mm-remove", "multimap remove({k:?},{v:?}) returned existed=true for a key without values");
            }
        }
        MOp::RemoveAll { k, c } => {
            let exp = model_vals(m, k);
            {
                let it = io!(t.remove_all(KF::to(k)));
                let what = format!("remove_all({k:?})");
                drive_values!(VF, &what, it, exp, c);
            }
            m.remove(k);
            // key must be gone whatever was done with the iterator
            let it = io!(t.get(KF::to(k)));
            sensure!(it.is_empty(), "mm-remove_all", "key {k:?} still has {} values after remove_all", it.len());
        }
        other => mm_read_op::<KF, VF, _>(t, m, other)?,
    }
    if let Some((k, was)) = before {
        let now = m.get(&k).is_some_and(|s| needs_subtree(s, fixed, page));
        if !was && now {
            st.grew_past_inline += 1;
        }
        if was && !now {
            st.shrank_below_inline += 1;
        }
        let cnt = m.values().filter(|s| needs_subtree(s, fixed, page)).count() as u32;
        st.max_simultaneous_subtree_keys = st.max_simultaneous_subtree_keys.max(cnt);
        st.max_values_per_key = st.max_values_per_key.max(m.get(&k).map_or(0, |s| s.len()));
    }
    Ok(())
}
