//! C12: check_integrity never certifies a damaged database (engine `corrupt`).
//! Built WITHOUT debug assertions (profile release): an assertion firing early would hide a
//! wrong Ok(true).

use crate::backend::RecBackend;
use crate::crash::{Rng, match_commit_point};
use crate::decoder::{ImageSource, PageKey, PageSource, decode_forest};
use crate::driver::{CaseOut, Check, Failure, Plan, Tier, catch, normalize_sig};
use crate::genr::DbCfg;
use crate::hist::*;
use crate::tableops::Stop;
use crate::tape::{Fnv, Tape};
use serde_json::{Value, json};
use std::collections::BTreeMap;
use std::sync::Arc;

pub struct C12;

fn profile(_t: &Tape) -> Profile {
    let mut p = Profile::base();
    p.w_commit = 30;
    p.w_begin = 12;
    p.nondurable = 40;
    p.w_sp_pers = 5;
    p.w_sp_eph = 0;
    p.w_restore = 2;
    p.w_del_pers = 2;
    p.w_delete_table = 3;
    p.w_reopen = 2;
    p.w_compact = 1;
    p.w_check = 0;
    p.w_begin_read = 0;
    p.w_reader_probe = 0;
    p.w_take_owned = 0;
    p.w_owned_step = 0;
    p.w_hold = 0;
    p.mismatch = 0;
    p.key_universe = 48;
    p.verify_each_commit = false;
    p
}

#[derive(Clone, Debug)]
pub enum Alter {
    Xor { off: usize, mask: u8 },
    Fill { off: usize, len: usize, byte: Option<u8>, seed: u64 },
    SwapPages { a: PageKey, b: PageKey },
    GodByte(u8),
    Truncate(usize),
    Extend(usize),
}

#[derive(Default)]
struct Stats {
    alterations: u64,
    interrupted: u64,
    open_err: u64,
    open_panic: u64,
    check_err: u64,
    check_panic: u64,
    repaired: u64,
    clean_same: u64,
    clean_older: u64,
    nontrivial: Vec<u64>,
    in_checksummed: u64,
    in_slack_or_free: u64,
    in_header: u64,
    panics: BTreeMap<String, u64>,
}

fn apply(img: &[u8], a: &Alter, src_hdr: &crate::decoder::Header) -> Vec<u8> {
    let mut v = img.to_vec();
    match a {
        Alter::Xor { off, mask } => {
            if *off < v.len() {
                v[*off] ^= *mask;
            }
        }
        Alter::Fill { off, len, byte, seed } => {
            let end = (*off + *len).min(v.len());
            let fillv = crate::genr::fill(*seed, end.saturating_sub(*off));
            for (i, x) in v[*off..end].iter_mut().enumerate() {
                *x = byte.unwrap_or(fillv[i]);
            }
        }
        Alter::SwapPages { a, b } => {
            let (sa, ea) = src_hdr.page_range(*a);
            let (sb, eb) = src_hdr.page_range(*b);
            if ea as usize <= v.len() && eb as usize <= v.len() && ea - sa == eb - sb {
                let pa = v[sa as usize..ea as usize].to_vec();
                let pb = v[sb as usize..eb as usize].to_vec();
                v[sa as usize..ea as usize].copy_from_slice(&pb);
                v[sb as usize..eb as usize].copy_from_slice(&pa);
            }
        }
        Alter::GodByte(g) => v[9] = *g,
        Alter::Truncate(n) => v.truncate(v.len().saturating_sub(*n)),
        Alter::Extend(n) => v.extend(std::iter::repeat_n(0u8, *n)),
    }
    v
}

enum Verdict {
    OpenErr,
    OpenPanic(String),
    CheckErr,
    CheckPanic(String),
    Repaired(usize),
    Clean(usize),
}

/// An open whose repair is aborted from the repair callback (as a crash or an operator would
/// interrupt it). Returns the bytes the attempt left behind -- recovery may already have rewritten
/// the header, and whatever it wrote must not make the damage certifiable afterwards -- but only
/// when the open really ended with `RepairAborted`. An open that needed no repair succeeds, and
/// dropping that Database is a clean close which commits: that is a different history (a damaged
/// file used for a session, then closed), about which the property says nothing.
fn interrupted_open(cfg: &DbCfg, img: &[u8]) -> Option<Vec<u8>> {
    let b = RecBackend::from_image(img.to_vec(), false);
    let b2 = b.clone();
    let r = catch(move || {
        let mut builder = cfg.builder();
        builder.set_repair_callback(move |s| s.abort());
        match builder.create_with_backend(b2) {
            Err(redb::DatabaseError::RepairAborted) => true,
            other => {
                let _ = catch(move || drop(other));
                false
            }
        }
    });
    matches!(r, Ok(true)).then(|| b.image())
}

fn probe(cfg: &DbCfg, img: Vec<u8>, commits: &[Arc<DbState>]) -> Result<Verdict, Failure> {
    let b = RecBackend::from_image(img, false);
    let mut db = match catch(|| cfg.builder().create_with_backend(b)) {
        Ok(Ok(db)) => db,
        Ok(Err(_)) => return Ok(Verdict::OpenErr),
        Err(p) => return Ok(Verdict::OpenPanic(normalize_sig(&p))),
    };
    let res = match catch(|| db.check_integrity()) {
        Ok(r) => r,
        Err(p) => {
            // the panic may have poisoned internal locks; dropping the handle can panic again
            let _ = catch(move || drop(db));
            return Ok(Verdict::CheckPanic(normalize_sig(&p)));
        }
    };
    let cands: Vec<(usize, Arc<DbState>)> = commits.iter().cloned().enumerate().collect();
    match res {
        Err(_) => Ok(Verdict::CheckErr),
        Ok(clean) => {
            // whatever it now serves must be exactly one commit point, read without error
            let j = match catch(|| match_commit_point(&db, &cands)) {
                Ok(Ok(j)) => j,
                Ok(Err(Stop::Fail(f))) => {
                    return Err(Failure::new(
                        if clean { "certified-damaged" } else { "repair-left-non-commit-state" },
                        format!("check_integrity() returned Ok({clean}) but the contents then served are not exactly one commit point: {}", f.msg),
                    ));
                }
                Ok(Err(Stop::Io(e))) => {
                    return Err(Failure::new(
                        if clean { "certified-damaged" } else { "repair-left-unreadable-state" },
                        format!("check_integrity() returned Ok({clean}) but reading the contents then fails: {e}"),
                    ));
                }
                Err(p) => {
                    return Err(Failure::new(
                        if clean { "certified-damaged" } else { "repair-left-unreadable-state" },
                        format!("check_integrity() returned Ok({clean}) but reading the contents then panics: {p}"),
                    ));
                }
            };
            if !clean {
                match catch(|| db.check_integrity()) {
                    Ok(Ok(true)) => {}
                    Ok(r) => return Err(Failure::new("second-check-after-repair", format!("after a reported repair (Ok(false)) a second check_integrity() returned {r:?} instead of Ok(true)"))),
                    Err(p) => return Err(Failure::new("second-check-after-repair", format!("after a reported repair a second check_integrity() panicked: {p}"))),
                }
                Ok(Verdict::Repaired(j))
            } else {
                Ok(Verdict::Clean(j))
            }
        }
    }
}

fn run_case(tape: &Tape, tier: Tier, trace: bool) -> (Stats, Option<Vec<String>>, Result<(), Failure>) {
    let mut st = Stats::default();
    let mut tr = None;
    let r = (|| -> Result<(), Failure> {
        let cfg = decode_cfg(tape);
        let mut m = Machine::new(cfg.clone(), profile(tape), false, trace).map_err(stop_failure)?;
        let res = m.run_tape(tape);
        tr = m.trace.clone();
        res.map_err(stop_failure)?;
        m.drop_all_handles();
        let unclean = tape.cfg[5] % 3 == 0;
        // make the final state durable so that the window is a single commit point
        if m.d != m.commits.len() - 1 {
            m.begin_write(Dur::Immediate, false, tape.cfg[6] % 2 == 0).map_err(stop_failure)?;
            m.commit().map_err(stop_failure)?;
        }
        let img = if unclean {
            m.backend.image()
        } else {
            let db = m.db.take();
            drop(db);
            m.backend.image()
        };
        let commits = m.commits.clone();
        let last = commits.len() - 1;
        // decode the unaltered image to classify positions
        let src = ImageSource::new(&img).map_err(|e| Failure::new("harness-decoder", format!("the unaltered image does not decode: {e}")))?;
        let hdr = src.header.clone();
        let slot = &hdr.slots[hdr.primary];
        let forest = decode_forest(&src, slot.user_root, slot.system_root, true).map_err(|e| Failure::new("harness-decoder", format!("the unaltered image does not decode: {e}")))?;
        // baseline: the unaltered image must be certified and serve the last commit point
        match probe(&cfg, img.clone(), &commits)? {
            Verdict::Clean(j) if j == last => {}
            Verdict::Clean(j) | Verdict::Repaired(j) if unclean && j == last => {}
            Verdict::Repaired(j) => return Err(Failure::new("unaltered-reported-damaged", format!("the unaltered {} image was reported as repaired (Ok(false)), serving S{j} of S0..S{last}", if unclean { "recovery-required" } else { "cleanly closed" }))),
            Verdict::Clean(j) => return Err(Failure::new("unaltered-wrong-state", format!("the unaltered image serves S{j}, expected S{last}"))),
            _ => return Err(Failure::new("unaltered-rejected", "the unaltered image was rejected by open or check_integrity".to_string())),
        }
        let reachable: Vec<(PageKey, usize)> = forest.covered.iter().map(|(k, v)| (*k, *v)).collect();
        let ps = hdr.page_size as usize;
        // free pages: order-0 pages inside the layout not covered by any reachable page
        let mut used: std::collections::BTreeSet<(u32, u32)> = Default::default();
        for (p, _) in &reachable {
            let s = p.1 << p.2;
            for i in s..s + (1u32 << p.2) {
                used.insert((p.0, i));
            }
        }
        let mut free_pages: Vec<PageKey> = vec![];
        for (r, len) in src.regions.iter().enumerate() {
            for i in 0..*len {
                if !used.contains(&(r as u32, i)) {
                    free_pages.push((r as u32, i, 0));
                    if free_pages.len() >= 64 {
                        break;
                    }
                }
            }
        }
        let mut rng = Rng::new(crate::crashchecks::crash_seed(tape));
        // header: every byte of the 320-byte header region in both tiers (commit slots and header
        // fields are protected only by the slot checksums and by cross-checks at open)
        let mut alts: Vec<(Alter, &'static str)> = vec![];
        for off in 0..320usize {
            let mask = [0x01u8, 0x80, 0xff][rng.below(3)];
            alts.push((Alter::Xor { off, mask }, "header"));
            // flag-like bytes additionally cleared / set
            if img[off] == 1 {
                alts.push((Alter::Xor { off, mask: 0x01 }, "header"));
            } else if img[off] == 0 && rng.chance(1, 8) {
                alts.push((Alter::Xor { off, mask: 0x01 }, "header"));
            }
        }
        for g in 0..8u8 {
            alts.push((Alter::GodByte(g), "header"));
        }
        alts.push((Alter::Truncate(ps), "header"));
        alts.push((Alter::Extend(ps), "header"));
        alts.push((Alter::Truncate(ps * hdr.region_max_pages as usize), "header"));
        let budget = alts.len() + tier.pick(140usize, 1200);
        // pages
        while alts.len() < budget && !reachable.is_empty() {
            let (p, covered) = reachable[rng.below(reachable.len())];
            let (s, e) = hdr.page_range(p);
            let (s, e) = (s as usize, e as usize);
            match rng.below(10) {
                0..=4 => {
                    let off = s + rng.below(covered.max(1));
                    alts.push((Alter::Xor { off, mask: [0x01u8, 0x80, 0xff, 0x10][rng.below(4)] }, "checksummed"));
                }
                5 => {
                    if e - s > covered {
                        let off = s + covered + rng.below(e - s - covered);
                        alts.push((Alter::Xor { off, mask: 0xff }, "slack"));
                    }
                }
                6 => {
                    let off = s + rng.below(covered.max(1));
                    let len = 1 + rng.below((covered - (off - s)).clamp(1, 64));
                    alts.push((Alter::Fill { off, len, byte: rng.chance(1, 2).then_some(0), seed: rng.next() }, "checksummed"));
                }
                7 => {
                    let (q, _) = reachable[rng.below(reachable.len())];
                    if q != p && q.2 == p.2 {
                        alts.push((Alter::SwapPages { a: p, b: q }, "checksummed"));
                    }
                }
                8 => {
                    if !free_pages.is_empty() && p.2 == 0 {
                        let q = free_pages[rng.below(free_pages.len())];
                        alts.push((Alter::SwapPages { a: p, b: q }, "checksummed"));
                    }
                }
                _ => {
                    if !free_pages.is_empty() {
                        let q = free_pages[rng.below(free_pages.len())];
                        let (fs, _) = hdr.page_range(q);
                        alts.push((Alter::Xor { off: fs as usize + rng.below(ps), mask: 0xff }, "free"));
                    }
                }
            }
        }
        for (a, class) in alts {
            let altered = apply(&img, &a, &hdr);
            if altered == img {
                continue;
            }
            st.alterations += 1;
            match class {
                "header" => st.in_header += 1,
                "checksummed" => st.in_checksummed += 1,
                _ => st.in_slack_or_free += 1,
            }
            // a third of the alterations are first met by an open whose repair is aborted
            let mut interrupted = false;
            let altered = if (class == "header" && (unclean || rng.chance(1, 2))) || rng.chance(1, 5) {
                match interrupted_open(&cfg, &altered) {
                    Some(after) => {
                        interrupted = true;
                        st.interrupted += 1;
                        after
                    }
                    None => altered,
                }
            } else {
                altered
            };
            let v = probe(&cfg, altered, &commits).map_err(|mut f| {
                f.detail = json!({"alteration": format!("{a:?}"), "position_class": class, "image": if unclean { "recovery-required" } else { "cleanly closed" }, "image_len": img.len(), "first_open_aborted_in_repair": interrupted});
                f.msg = format!("[{} image, alteration {a:?} ({class}){}] {}", if unclean { "recovery-required" } else { "cleanly closed" }, if interrupted { ", then an open whose repair was aborted from the repair callback" } else { "" }, f.msg);
                f
            })?;
            match v {
                Verdict::OpenErr => st.open_err += 1,
                Verdict::OpenPanic(p) => {
                    st.open_panic += 1;
                    *st.panics.entry(p).or_default() += 1;
                }
                Verdict::CheckErr => st.check_err += 1,
                Verdict::CheckPanic(p) => {
                    st.check_panic += 1;
                    *st.panics.entry(p).or_default() += 1;
                }
                Verdict::Repaired(_) => st.repaired += 1,
                Verdict::Clean(j) => {
                    if j == last {
                        st.clean_same += 1
                    } else {
                        st.clean_older += 1
                    }
                }
            }
            if class != "slack" && class != "free" {
                let mut h = Fnv::new();
                h.write_u64(tape.hash64());
                h.write_str(&format!("{a:?}"));
                st.nontrivial.push(h.finish());
            }
        }
        Ok(())
    })();
    (st, tr, r)
}

fn tier_of_env() -> Tier {
    match std::env::var("VERIF_TIER_INTERNAL").ok().as_deref() {
        Some("thorough") => Tier::Thorough,
        _ => Tier::Quick,
    }
}

impl Check for C12 {
    fn id(&self) -> &'static str {
        "C12"
    }
    fn level(&self) -> &'static str {
        "fault_enumeration"
    }
    fn abort_is_violation(&self) -> bool {
        false
    }
    fn isolated(&self) -> bool {
        true
    }
    fn rule(&self) -> String {
        "closed images (cleanly closed, or left recovery-required by a process that stopped) of short generated histories with 1-4 tables incl. multimaps with subtrees, persistent savepoints, pending-free entries; alterations per image: XOR {01,80,ff} of header bytes (every 7th byte in quick, all 320 in thorough), all 8 god-byte values, truncation by a page and a region, extension by a page, and sampled: single-byte XOR inside the checksummed prefix of a reachable page (positions classified by the independent decoder), a byte in page slack, zeroed/randomised runs inside the checksummed prefix, swaps of two reachable pages, of a reachable and a free page, a byte of a free page. Oracle per alteration: open error -> reported; check_integrity error -> reported; panic -> counted as reported abnormally; Ok(false) -> the contents (all tables and persistent savepoint ids, read completely, any error or panic counts) must equal exactly one commit point of the history and a second check_integrity must return Ok(true); Ok(true) -> the contents must equal exactly one commit point, read without error. The unaltered image must be certified and serve the last commit point. Non-trivial: alteration inside a checksummed prefix, a slot or a header field (not slack, not a free page); distinct by (tape, alteration).".into()
    }
    fn assumptions(&self) -> Vec<String> {
        vec!["built without debug assertions".into(), "a panic during open/check of a damaged file is 'reported abnormally': counted in the evidence, not a violation of this property".into(), "positions are classified with the independent decoder (DESIGN.md 3.4)".into()]
    }
    fn plan(&self, tier: Tier) -> Plan {
        unsafe { std::env::set_var("VERIF_TIER_INTERNAL", tier.name()) };
        Plan { cases: tier.pick(400, 8_000), max_recs: tier.pick(40, 70), max_shrink_iters: 400, workers: 16 }
    }
    fn run(&self, tape: &Tape, want_sample: bool) -> Result<CaseOut, Failure> {
        let (st, tr, r) = run_case(tape, tier_of_env(), want_sample);
        r?;
        let mut out = CaseOut { evals: st.alterations.max(1), ..Default::default() };
        out.nontrivial = st.nontrivial;
        out.class_n("alterations evaluated", st.alterations);
        out.class_n("alterations first met by an open whose repair was aborted (repair callback)", st.interrupted);
        out.class_n("alterations in header/slots", st.in_header);
        out.class_n("alterations in checksummed page bytes", st.in_checksummed);
        out.class_n("alterations in slack or free pages", st.in_slack_or_free);
        out.class_n("verdict: open error", st.open_err);
        out.class_n("verdict: check_integrity error", st.check_err);
        out.class_n("verdict: Ok(false) repaired, state is a commit point, second check Ok(true)", st.repaired);
        out.class_n("verdict: Ok(true), contents identical to the last commit point", st.clean_same);
        out.class_n("verdict: Ok(true), contents identical to an older commit point", st.clean_older);
        out.class_n("verdict: panic in open (reported abnormally)", st.open_panic);
        out.class_n("verdict: panic in check_integrity (reported abnormally)", st.check_panic);
        if want_sample {
            out.sample = Some(json!({"config": decode_cfg(tape).json(), "ops": tr.map(|t| t.into_iter().take(40).collect::<Vec<_>>()), "alterations": st.alterations, "panic_sites": st.panics}));
        }
        Ok(out)
    }
    fn render(&self, tape: &Tape) -> Value {
        let (st, tr, r) = run_case(tape, tier_of_env(), true);
        json!({"config": decode_cfg(tape).json(), "ops": tr, "alterations_before_failure": st.alterations, "result": r.as_ref().err().map(|f| f.msg.clone()), "detail": r.err().map(|f| f.detail)})
    }
}
