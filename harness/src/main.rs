use vcore::driver::{self, Check, Tier};

fn checks() -> Vec<Box<dyn Check>> {
    vcore::all_checks()
}

fn main() {
    let args: Vec<String> = std::env::args().collect();
    if args.len() < 3 {
        eprintln!("usage: vcheck <ID> <quick|thorough> [--replay FILE]");
        std::process::exit(2);
    }
    let id = args[1].to_uppercase();
    let tier = match std::env::var("VERIF_TIER").ok().as_deref().unwrap_or(args[2].as_str()) {
        "thorough" => Tier::Thorough,
        _ => Tier::Quick,
    };
    let seed: u64 = std::env::var("VERIF_SEED")
        .ok()
        .and_then(|s| s.parse::<i128>().ok())
        .map(|v| v as u64)
        .unwrap_or(1);
    driver::install_panic_hook();
    let Some(check) = checks().into_iter().find(|c| c.id() == id) else {
        eprintln!("unknown property {id}");
        std::process::exit(2);
    };
    // watchdog: a hang is inconclusive (exit 2), never a violation
    let limit = std::env::var("VERIF_WATCHDOG_S")
        .ok()
        .and_then(|s| s.parse::<u64>().ok())
        .unwrap_or(match tier {
            Tier::Quick => 1500,
            Tier::Thorough => 4 * 3600,
        });
    std::thread::spawn(move || {
        std::thread::sleep(std::time::Duration::from_secs(limit));
        eprintln!("watchdog: no verdict after {limit}s -- inconclusive");
        std::process::exit(2);
    });
    if let Some(p) = args.iter().position(|a| a == "--child") {
        let w: usize = args.get(p + 1).and_then(|s| s.parse().ok()).unwrap_or(0);
        let skip: u64 = args.iter().position(|a| a == "--skip").and_then(|q| args.get(q + 1)).and_then(|s| s.parse().ok()).unwrap_or(0);
        std::process::exit(driver::run_child(check.as_ref(), tier, seed, w, skip));
    }
    if let Some(p) = args.iter().position(|a| a == "--render") {
        let t = vcore::tape::Tape::from_hex(args.get(p + 1).map(|s| s.as_str()).unwrap_or("")).expect("bad tape hex");
        println!("{}", serde_json::to_string_pretty(&check.render(&t)).unwrap());
        std::process::exit(0);
    }
    let code = if let Some(p) = args.iter().position(|a| a == "--replay") {
        let Some(path) = args.get(p + 1) else {
            eprintln!("--replay needs a file");
            std::process::exit(2);
        };
        driver::replay_file(check.as_ref(), path)
    } else {
        driver::run_check(check.as_ref(), tier, seed)
    };
    std::process::exit(code);
}
