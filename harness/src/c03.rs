//! C03: commits take effect atomically and in one serial order (engine `sched`)

use crate::backend::RecBackend;
use crate::driver::{CaseOut, Check, Failure, Plan, Tier, catch, normalize_sig};
use crate::genr::{DbCfg, fill};
use crate::sched::*;
use crate::tape::{Fnv, Rec, Tape};
use redb::{Database, Durability, ReadTransaction, ReadableDatabase, ReadableTable, Savepoint, TableDefinition, WriteTransaction};
use serde_json::{Value, json};
use std::sync::{Arc, Mutex, RwLock};

pub struct C03;

const TX: TableDefinition<u64, &[u8]> = TableDefinition::new("x");
const TY: TableDefinition<u64, &[u8]> = TableDefinition::new("y");
const ROWS: u64 = 6;

#[derive(Clone, Debug)]
pub enum Step {
    /// begin_read, observe; keep the reader for `hold` further steps, observe again, drop
    Read { hold: u8 },
    Write { nondurable: bool, two_phase: bool, abort: bool, drop_instead: bool },
    /// begin_write, ephemeral_savepoint, abort; keep the savepoint for `hold` steps then drop it
    Savepoint { hold: u8 },
    Yield,
}

#[derive(Clone, Debug)]
pub enum Ev {
    BeginCall { write: bool },
    BeginRet { write: bool, ok: bool },
    /// what a transaction saw: (k, nonce) per table, None = table missing
    Observe { kx: Option<(u64, u64)>, ky: Option<(u64, u64)>, consistent: bool, obs_id: u64, again: bool },
    CommitCall { k: u64, nonce: u64 },
    CommitRet { k: u64, nonce: u64, ok: bool },
    AbortRet { nonce: u64 },
    /// the call that ends a write transaction (commit, abort or drop) is about to be made
    EndCall,
    Error(String),
}

#[derive(Clone, Debug)]
pub struct Event {
    pub t: u64,
    pub thread: usize,
    pub ev: Ev,
}

struct Shared {
    db: RwLock<Option<Database>>,
    hist: Mutex<Vec<Event>>,
    nonce: std::sync::atomic::AtomicU64,
    obs: std::sync::atomic::AtomicU64,
}

impl Shared {
    fn log(&self, thread: usize, ev: Ev) {
        let t = tick();
        self.hist.lock().unwrap().push(Event { t, thread, ev });
    }
}

fn row_len(table: u8, k: u64, i: u64) -> usize {
    60 + ((k + i * 3 + u64::from(table) * 5) % 7) as usize * 110
}

fn row_val(table: u8, k: u64, nonce: u64, i: u64) -> Vec<u8> {
    fill(k.wrapping_mul(1_000_003) ^ nonce.wrapping_mul(7919) ^ (i << 8) ^ u64::from(table), row_len(table, k, i))
}

fn counter_val(k: u64, nonce: u64) -> Vec<u8> {
    let mut v = k.to_le_bytes().to_vec();
    v.extend_from_slice(&nonce.to_le_bytes());
    v
}

/// read one table completely; returns ((k, nonce), rows consistent with them)
fn observe_table<T: ReadableTable<u64, &'static [u8]>>(t: &T, table: u8) -> Result<((u64, u64), bool), String> {
    let c = t.get(0u64).map_err(|e| format!("{e:?}"))?.ok_or("counter row missing")?;
    let cv = c.value();
    if cv.len() != 16 {
        return Ok(((u64::MAX, u64::MAX), false));
    }
    let k = u64::from_le_bytes(cv[..8].try_into().unwrap());
    let nonce = u64::from_le_bytes(cv[8..].try_into().unwrap());
    drop(c);
    let mut consistent = true;
    let mut n = 0;
    for e in t.range(1u64..).map_err(|e| format!("{e:?}"))? {
        let (key, v) = e.map_err(|e| format!("{e:?}"))?;
        let i = key.value();
        n += 1;
        if i > ROWS || v.value() != row_val(table, k, nonce, i).as_slice() {
            consistent = false;
        }
    }
    if n != ROWS {
        consistent = false;
    }
    Ok(((k, nonce), consistent))
}

pub fn observe_read(rt: &ReadTransaction) -> Result<(Option<(u64, u64)>, Option<(u64, u64)>, bool), String> {
    let mut cons = true;
    let mut one = |def: TableDefinition<u64, &'static [u8]>, table: u8| -> Result<Option<(u64, u64)>, String> {
        match rt.open_table(def) {
            Ok(t) => {
                let (kn, c) = observe_table(&t, table)?;
                cons &= c;
                Ok(Some(kn))
            }
            Err(redb::TableError::TableDoesNotExist(_)) => Ok(None),
            Err(e) => Err(format!("{e:?}")),
        }
    };
    let kx = one(TX, 0)?;
    let ky = one(TY, 1)?;
    Ok((kx, ky, cons))
}

pub fn write_all(wt: &WriteTransaction, k: u64, nonce: u64) -> Result<(), String> {
    for (def, table) in [(TX, 0u8), (TY, 1u8)] {
        let mut t = wt.open_table(def).map_err(|e| format!("{e:?}"))?;
        t.insert(0u64, counter_val(k, nonce).as_slice()).map_err(|e| format!("{e:?}"))?;
        for i in 1..=ROWS {
            t.insert(i, row_val(table, k, nonce, i).as_slice()).map_err(|e| format!("{e:?}"))?;
        }
    }
    Ok(())
}

struct Held {
    readers: Vec<(ReadTransaction, u8, u64)>,
    savepoints: Vec<(Savepoint, u8)>,
}

fn run_step(sh: &Shared, me: usize, step: &Step, held: &mut Held, ctl: &Ctl) {
    // age held objects
    let mut i = 0;
    while i < held.readers.len() {
        if held.readers[i].1 == 0 {
            let (rt, _, obs_id) = held.readers.remove(i);
            match observe_read(&rt) {
                Ok((kx, ky, c)) => sh.log(me, Ev::Observe { kx, ky, consistent: c, obs_id, again: true }),
                Err(e) => sh.log(me, Ev::Error(format!("held reader: {e}"))),
            }
            drop(rt);
        } else {
            held.readers[i].1 -= 1;
            i += 1;
        }
    }
    let mut i = 0;
    while i < held.savepoints.len() {
        if held.savepoints[i].1 == 0 {
            let (sp, _) = held.savepoints.remove(i);
            drop(sp);
        } else {
            held.savepoints[i].1 -= 1;
            i += 1;
        }
    }
    ctl.park(me, "step.boundary");
    match step {
        Step::Yield => {}
        Step::Read { hold } => {
            sh.log(me, Ev::BeginCall { write: false });
            let rt = {
                let g = sh.db.read().unwrap();
                let Some(db) = g.as_ref() else { return };
                db.begin_read()
            };
            match rt {
                Ok(rt) => {
                    sh.log(me, Ev::BeginRet { write: false, ok: true });
                    let obs_id = sh.obs.fetch_add(1, std::sync::atomic::Ordering::SeqCst);
                    match observe_read(&rt) {
                        Ok((kx, ky, c)) => sh.log(me, Ev::Observe { kx, ky, consistent: c, obs_id, again: false }),
                        Err(e) => sh.log(me, Ev::Error(format!("reader: {e}"))),
                    }
                    if *hold > 0 {
                        held.readers.push((rt, *hold, obs_id));
                    }
                }
                Err(e) => {
                    sh.log(me, Ev::BeginRet { write: false, ok: false });
                    sh.log(me, Ev::Error(format!("begin_read: {e:?}")));
                }
            }
        }
        Step::Write { nondurable, two_phase, abort, drop_instead } => {
            sh.log(me, Ev::BeginCall { write: true });
            let wt = {
                let g = sh.db.read().unwrap();
                let Some(db) = g.as_ref() else { return };
                db.begin_write()
            };
            let mut wt = match wt {
                Ok(w) => w,
                Err(e) => {
                    sh.log(me, Ev::BeginRet { write: true, ok: false });
                    sh.log(me, Ev::Error(format!("begin_write: {e:?}")));
                    return;
                }
            };
            sh.log(me, Ev::BeginRet { write: true, ok: true });
            // what the writer itself sees is an observation too
            let obs_id = sh.obs.fetch_add(1, std::sync::atomic::Ordering::SeqCst);
            let seen = (|| -> Result<(Option<(u64, u64)>, Option<(u64, u64)>, bool), String> {
                let mut cons = true;
                let mut ks = vec![];
                for (def, table) in [(TX, 0u8), (TY, 1u8)] {
                    let t = wt.open_table(def).map_err(|e| format!("{e:?}"))?;
                    if t.get(0u64).map_err(|e| format!("{e:?}"))?.is_none() {
                        ks.push(None);
                        continue;
                    }
                    let (kn, c) = observe_table(&t, table)?;
                    cons &= c;
                    ks.push(Some(kn));
                }
                Ok((ks[0], ks[1], cons))
            })();
            let k = match seen {
                Ok((kx, ky, c)) => {
                    sh.log(me, Ev::Observe { kx, ky, consistent: c, obs_id, again: false });
                    kx.map(|x| x.0).unwrap_or(0) + 1
                }
                Err(e) => {
                    sh.log(me, Ev::Error(format!("writer read: {e}")));
                    sh.log(me, Ev::EndCall);
                    drop(wt);
                    return;
                }
            };
            let nonce = sh.nonce.fetch_add(1, std::sync::atomic::Ordering::SeqCst);
            if let Err(e) = write_all(&wt, k, nonce) {
                sh.log(me, Ev::Error(format!("writer: {e}")));
                sh.log(me, Ev::EndCall);
                drop(wt);
                return;
            }
            sh.log(me, Ev::EndCall);
            if *abort {
                if *drop_instead {
                    drop(wt);
                } else if let Err(e) = wt.abort() {
                    sh.log(me, Ev::Error(format!("abort: {e:?}")));
                }
                sh.log(me, Ev::AbortRet { nonce });
                return;
            }
            if *nondurable {
                let _ = wt.set_durability(Durability::None);
            }
            wt.set_two_phase_commit(*two_phase);
            sh.log(me, Ev::CommitCall { k, nonce });
            let r = wt.commit();
            sh.log(me, Ev::CommitRet { k, nonce, ok: r.is_ok() });
            if let Err(e) = r {
                sh.log(me, Ev::Error(format!("commit: {e:?}")));
            }
        }
        Step::Savepoint { hold } => {
            sh.log(me, Ev::BeginCall { write: true });
            let wt = {
                let g = sh.db.read().unwrap();
                let Some(db) = g.as_ref() else { return };
                db.begin_write()
            };
            match wt {
                Ok(wt) => {
                    sh.log(me, Ev::BeginRet { write: true, ok: true });
                    match wt.ephemeral_savepoint() {
                        Ok(sp) => held.savepoints.push((sp, *hold)),
                        Err(e) => sh.log(me, Ev::Error(format!("ephemeral_savepoint: {e:?}"))),
                    }
                    sh.log(me, Ev::EndCall);
                    if let Err(e) = wt.abort() {
                        sh.log(me, Ev::Error(format!("abort: {e:?}")));
                    }
                    sh.log(me, Ev::AbortRet { nonce: u64::MAX });
                }
                Err(e) => {
                    sh.log(me, Ev::BeginRet { write: true, ok: false });
                    sh.log(me, Ev::Error(format!("begin_write: {e:?}")));
                }
            }
        }
    }
}

pub struct Case {
    pub cfg: DbCfg,
    pub programs: Vec<Vec<Step>>,
    pub decisions: Vec<u8>,
    pub free_run: bool,
}

pub fn decode(tape: &Tape) -> Case {
    let c = &tape.cfg;
    // small pages and small caches make page reuse visible
    let cfg = DbCfg::decode(c[0] / 3, c[1], c[2] / 2);
    let n = 2 + (c[3] % 3) as usize;
    let free_run = c[4] % 5 == 4;
    let mut programs: Vec<Vec<Step>> = vec![vec![]; n];
    let mut decisions = vec![];
    for (i, rec) in tape.recs.iter().enumerate() {
        let mut r = Rec::new(rec);
        let th = r.idx8(n);
        let kind = r.weighted(&[40, 44, 8, 4]);
        let b = r.u8();
        let step = match kind {
            0 => Step::Read { hold: if b % 3 == 0 { 1 + b % 4 } else { 0 } },
            1 => Step::Write { nondurable: b & 1 == 1, two_phase: b & 2 == 2, abort: b % 8 == 7, drop_instead: b & 16 == 16 },
            2 => Step::Savepoint { hold: b % 4 },
            _ => Step::Yield,
        };
        programs[th].push(step);
        decisions.extend_from_slice(&rec[4..]);
        let _ = i;
    }
    Case { cfg, programs, decisions, free_run }
}

#[derive(Default)]
pub struct Analysis {
    pub observations: u64,
    pub commits: u64,
    pub overlapping_window: u64,
    pub nontrivial: bool,
}

/// Verdict from the recorded history only
pub fn analyse(hist: &[Event]) -> Result<Analysis, Failure> {
    let mut a = Analysis::default();
    // commits by k: (call time, return time, nonce, ok)
    let mut commits: Vec<(u64, u64, u64, u64, bool)> = vec![]; // k, call, ret, nonce, ok
    let mut pending: std::collections::BTreeMap<u64, (u64, u64)> = Default::default(); // nonce -> (k, call t)
    let mut aborted: std::collections::BTreeSet<u64> = Default::default();
    for e in hist {
        match &e.ev {
            Ev::CommitCall { k, nonce } => {
                pending.insert(*nonce, (*k, e.t));
            }
            Ev::CommitRet { k, nonce, ok } => {
                let call = pending.remove(nonce).map(|p| p.1).unwrap_or(e.t);
                commits.push((*k, call, e.t, *nonce, *ok));
            }
            Ev::AbortRet { nonce } => {
                aborted.insert(*nonce);
            }
            Ev::Error(msg) => {
                return Err(Failure::new("sched-unexpected-error", format!("an operation failed in a fault-free run: {msg}")));
            }
            _ => {}
        }
    }
    // in-flight commits at the end of the history (never returned): call known, no return
    for (nonce, (k, call)) in &pending {
        commits.push((*k, *call, u64::MAX, *nonce, false));
    }
    a.commits = commits.iter().filter(|c| c.4).count() as u64;
    // committed k must be consecutive and unique among successful commits
    let mut ks: Vec<u64> = commits.iter().filter(|c| c.4).map(|c| c.0).collect();
    ks.sort();
    for w in ks.windows(2) {
        if w[1] == w[0] {
            return Err(Failure::new("two-commits-same-k", format!("two successful commits both produced commit number {} (two write transactions were live at once or one did not see the other)", w[0])));
        }
    }
    // (e) write transactions never overlap: interval = [begin_write returned, its end event]
    let mut live: Option<(usize, u64)> = None;
    for e in hist {
        match &e.ev {
            Ev::BeginRet { write: true, ok: true } => {
                if let Some((th, t)) = live {
                    return Err(Failure::new("two-writers-live", format!("begin_write() returned on thread {} at t={} while the write transaction of thread {th} (since t={t}) had not ended", e.thread, e.t)));
                }
                live = Some((e.thread, e.t));
            }
            // once the ending call has been made the slot may be handed over at any time
            Ev::EndCall | Ev::CommitRet { .. } | Ev::AbortRet { .. } => {
                if live.map(|l| l.0) == Some(e.thread) {
                    live = None;
                }
            }
            Ev::Error(_) => {}
            _ => {}
        }
    }
    // observations
    let mut begin_call: std::collections::BTreeMap<usize, u64> = Default::default();
    let mut begin_ret: std::collections::BTreeMap<usize, u64> = Default::default();
    let mut first_obs: std::collections::BTreeMap<u64, (Option<(u64, u64)>, Option<(u64, u64)>)> = Default::default();
    // (observation return time, call time, k) for the monotonicity clause
    let mut seen: Vec<(u64, u64, u64, usize)> = vec![];
    for e in hist {
        match &e.ev {
            Ev::BeginCall { .. } => {
                begin_call.insert(e.thread, e.t);
            }
            Ev::BeginRet { .. } => {
                begin_ret.insert(e.thread, e.t);
            }
            Ev::Observe { kx, ky, consistent, obs_id, again } => {
                a.observations += 1;
                if !consistent {
                    return Err(Failure::new("partial-state-observed", format!("thread {} observed rows that do not belong to the commit named by the counter row (x={kx:?}, y={ky:?}): a partially applied or torn state", e.thread)));
                }
                if kx != ky {
                    return Err(Failure::new("tables-disagree", format!("thread {} observed commit {kx:?} in table x but {ky:?} in table y within one transaction", e.thread)));
                }
                if *again {
                    // a held reader must still see what it saw at first
                    if let Some(f) = first_obs.get(obs_id)
                        && (f.0 != *kx || f.1 != *ky)
                    {
                        return Err(Failure::new("snapshot-moved", format!("a held read transaction of thread {} first saw {:?} and later {kx:?}", e.thread, f.0)));
                    }
                    continue;
                }
                first_obs.insert(*obs_id, (*kx, *ky));
                let (call, ret) = (begin_call.get(&e.thread).copied().unwrap_or(0), begin_ret.get(&e.thread).copied().unwrap_or(e.t));
                let (k, nonce) = kx.unwrap_or((0, u64::MAX));
                if kx.is_some() {
                    if aborted.contains(&nonce) {
                        return Err(Failure::new("aborted-state-observed", format!("thread {} observed commit number {k} written by a transaction that was aborted", e.thread)));
                    }
                    match commits.iter().find(|c| c.3 == nonce) {
                        None => return Err(Failure::new("uncommitted-state-observed", format!("thread {} observed commit number {k} of a transaction whose commit() was never called", e.thread))),
                        Some(c) if c.1 > ret => return Err(Failure::new("uncommitted-state-observed", format!("thread {} observed commit number {k} although its commit() was only called (t={}) after this transaction's begin returned (t={ret})", e.thread, c.1))),
                        _ => {}
                    }
                }
                // window: lo = newest commit that returned Ok before begin was called
                let lo = commits.iter().filter(|c| c.4 && c.2 < call).map(|c| c.0).max().unwrap_or(0);
                let hi = commits.iter().filter(|c| c.1 < ret).map(|c| c.0).max().unwrap_or(0);
                if k < lo {
                    return Err(Failure::new("stale-read", format!("thread {} began (call t={call}) after commit {lo} had returned but observed commit {k}", e.thread)));
                }
                if k > hi {
                    return Err(Failure::new("future-read", format!("thread {} observed commit {k} but only commits up to {hi} had been requested when its begin returned (t={ret})", e.thread)));
                }
                if commits.iter().any(|c| c.1 < ret && c.2 > call) {
                    a.overlapping_window += 1;
                    a.nontrivial = true;
                }
                seen.push((call, ret, k, e.thread));
            }
            _ => {}
        }
    }
    // (d) the committed state never moves backwards: if obs1's begin returned before obs2's begin was called, k1 <= k2
    for i in 0..seen.len() {
        for j in 0..seen.len() {
            if seen[i].1 < seen[j].0 && seen[i].2 > seen[j].2 {
                return Err(Failure::new("state-moved-backwards", format!("a transaction of thread {} saw commit {} and a transaction of thread {} begun strictly later saw commit {}", seen[i].3, seen[i].2, seen[j].3, seen[j].2)));
            }
        }
    }
    Ok(a)
}

pub fn run_case(tape: &Tape) -> (Vec<Event>, Vec<(usize, &'static str)>, Result<Analysis, Failure>) {
    install_hook();
    let case = decode(tape);
    let backend = RecBackend::new(false);
    let db = match case.cfg.builder().create_with_backend(backend.clone()) {
        Ok(d) => d,
        Err(e) => return (vec![], vec![], Err(Failure::new("create", format!("{e:?}")))),
    };
    let sh = Arc::new(Shared { db: RwLock::new(Some(db)), hist: Mutex::new(vec![]), nonce: 1.into(), obs: 0.into() });
    let n = case.programs.len();
    let ctl = Ctl::new(n, case.free_run);
    let mut handles = vec![];
    let panics: Arc<Mutex<Vec<String>>> = Arc::new(Mutex::new(vec![]));
    for (id, prog) in case.programs.iter().cloned().enumerate() {
        let sh = sh.clone();
        let ctl = ctl.clone();
        let panics = panics.clone();
        handles.push(std::thread::spawn(move || {
            ctl.register(id);
            let r = catch(|| {
                ctl.park(id, "start");
                let mut held = Held { readers: vec![], savepoints: vec![] };
                for st in &prog {
                    run_step(&sh, id, st, &mut held, &ctl);
                }
                // release held objects (observing once more)
                for (rt, _, obs_id) in held.readers.drain(..) {
                    match observe_read(&rt) {
                        Ok((kx, ky, c)) => sh.log(id, Ev::Observe { kx, ky, consistent: c, obs_id, again: true }),
                        Err(e) => sh.log(id, Ev::Error(format!("held reader: {e}"))),
                    }
                }
                held.savepoints.clear();
            });
            if let Err(p) = r {
                panics.lock().unwrap().push(p);
            }
            ctl.done(id);
            Ctl::unregister();
        }));
    }
    let mut di = 0usize;
    let dec = case.decisions.clone();
    let completed = ctl.drive(|ncand| {
        let a = dec.get(di).copied().unwrap_or(0);
        let b = dec.get(di + 1).copied().unwrap_or(0);
        di += 2;
        ((a as usize) % ncand.max(1), [0u32, 0, 1, 3][(b % 4) as usize])
    });
    for h in handles {
        let _ = h.join();
    }
    let points = ctl.st.lock().unwrap().points.clone();
    let hist = sh.hist.lock().unwrap().clone();
    if let Some(p) = panics.lock().unwrap().first() {
        return (hist, points, Err(Failure::new(format!("panic:{}", normalize_sig(p)), format!("a worker thread panicked: {p}"))));
    }
    // final state through a fresh reader must be the last successful commit
    let _ = completed;
    drop(sh.db.write().unwrap().take());
    let v = backend.monitor_violations();
    if !v.is_empty() {
        return (hist, points, Err(Failure::new("backend-contract", format!("{:?}", &v[..v.len().min(3)]))));
    }
    let r = analyse(&hist);
    (hist, points, r)
}

/// Directed regression (found by this check, repaired by /repo commit 304fb54): a reader is
/// preempted between its snapshot registration and the construction of the read transaction
/// while non-durable commits complete; its snapshot must stay what it first read.
pub fn directed_read_registered() -> Result<(), Failure> {
    use std::sync::Condvar;
    struct Gate {
        st: Mutex<(bool, bool)>, // (reader parked, released)
        cv: Condvar,
    }
    impl PauseHandler for Gate {
        fn at(&self, _me: usize, point: &'static str) {
            if point == "read.registered" {
                let mut g = self.st.lock().unwrap();
                g.0 = true;
                self.cv.notify_all();
                while !g.1 {
                    g = self.cv.wait(g).unwrap();
                }
            }
        }
    }
    let gate = Arc::new(Gate { st: Mutex::new((false, false)), cv: Condvar::new() });
    let cfg = DbCfg { page_size: 512, region_size: 65536, cache_size: 0 };
    let db = Arc::new(cfg.builder().create_with_backend(RecBackend::new(false)).map_err(|e| Failure::new("create", format!("{e:?}")))?);
    let write = |k: u64, nd: bool| -> Result<(), String> {
        let mut w = db.begin_write().map_err(|e| format!("{e:?}"))?;
        if nd {
            w.set_durability(Durability::None).map_err(|e| format!("{e:?}"))?;
        }
        write_all(&w, k, k)?;
        w.commit().map_err(|e| format!("{e:?}"))
    };
    write(1, false).map_err(|e| Failure::new("harness", e))?;
    let (db2, gate2) = (db.clone(), gate.clone());
    let second: Arc<Mutex<Option<Result<bool, String>>>> = Arc::new(Mutex::new(None));
    let second2 = second.clone();
    let phase = Arc::new((Mutex::new(0u8), Condvar::new()));
    let phase2 = phase.clone();
    let reader = std::thread::spawn(move || {
        let h: Arc<dyn PauseHandler> = gate2.clone();
        register_handler(h, 0);
        let r = catch(|| -> Result<bool, String> {
            let rt = db2.begin_read().map_err(|e| format!("{e:?}"))?;
            let first = observe_read(&rt)?;
            {
                let (m, cv) = &*phase2;
                *m.lock().unwrap() = 1;
                cv.notify_all();
                let mut g = m.lock().unwrap();
                while *g != 2 {
                    g = cv.wait(g).unwrap();
                }
            }
            let again = observe_read(&rt)?;
            Ok(first == again && first.2 && again.2)
        });
        Ctl::unregister();
        *second2.lock().unwrap() = Some(match r {
            Ok(r) => r,
            Err(p) => Err(format!("panic: {p}")),
        });
        let (m, cv) = &*phase2;
        *m.lock().unwrap() = 3;
        cv.notify_all();
    });
    // wait until the reader is parked after registering
    {
        let mut g = gate.st.lock().unwrap();
        while !g.0 {
            g = gate.cv.wait(g).unwrap();
        }
    }
    let w1 = catch(|| -> Result<(), String> {
        write(2, true)?;
        write(3, true)
    });
    {
        let mut g = gate.st.lock().unwrap();
        g.1 = true;
        gate.cv.notify_all();
    }
    // reader reads its snapshot once
    {
        let (m, cv) = &*phase;
        let mut g = m.lock().unwrap();
        while *g < 1 {
            g = cv.wait(g).unwrap();
        }
    }
    let w2 = catch(|| -> Result<(), String> {
        write(4, true)?;
        write(5, true)?;
        write(6, true)
    });
    {
        let (m, cv) = &*phase;
        let mut g = m.lock().unwrap();
        if *g < 2 {
            *g = 2;
        }
        cv.notify_all();
    }
    let _ = reader.join();
    for w in [w1, w2] {
        match w {
            Ok(Ok(())) => {}
            Ok(Err(e)) => return Err(Failure::new("sched-unexpected-error", format!("directed scenario: a commit failed: {e}"))),
            Err(p) => return Err(Failure::new("snapshot-freed-under-reader", format!("directed scenario (reader preempted between registration and root read, then non-durable commits): the writer panicked: {p}"))),
        }
    }
    match second.lock().unwrap().take() {
        Some(Ok(true)) => Ok(()),
        Some(Ok(false)) => Err(Failure::new("snapshot-moved", "directed scenario (reader preempted between registration and root read, then non-durable commits): the read transaction's contents changed while it was alive".to_string())),
        Some(Err(e)) => Err(Failure::new("snapshot-moved", format!("directed scenario: the reader failed: {e}"))),
        None => Err(Failure::new("harness", "directed scenario: reader did not finish".to_string())),
    }
}

impl Check for C03 {
    fn id(&self) -> &'static str {
        "C03"
    }
    fn rule(&self) -> String {
        "2-4 thread programs (begin_read/observe/hold/observe again/drop; begin_write/read/rewrite both tables/commit with any durability and 1PC or 2PC, or abort, or drop; ephemeral savepoint create and later drop) and a schedule, both decoded from the tape: worker threads park at 17 named pause points inside begin_read, durable_commit, non_durable_commit, the post-commit epilogue, abort, Savepoint::drop, WriteTransaction::drop and Database::drop (hook H2) and at call boundaries; the controller (tape bytes) decides which parked worker runs next and for how many pause points; a worker that makes no progress for 25 ms (blocked inside redb, e.g. begin_write behind the live writer) is detached and another is scheduled (scheduling hint only). One fifth of the cases run free on real cores. Commit number k and a per-transaction nonce are written into a counter row of both tables and every other row is derived from them. Verdict from the recorded call/return history only: every transaction sees one commit in both tables with all rows consistent; lo <= k <= hi (lo = last commit that returned before begin was called, hi = last commit whose commit() was called before begin returned); nonces of aborted or not-yet-committing transactions never appear; a held reader sees the same commit later; k never decreases between transactions ordered by return-before-call; two write transactions are never live at once. Non-trivial: an observation whose begin overlapped a commit() in real time; distinct by schedule hash.".into()
    }
    fn assumptions(&self) -> Vec<String> {
        vec!["preemption only at the named pause points and call boundaries (plus whatever the OS does in free-running cases); no weak-memory exploration".into(), "the 25 ms no-progress timeout is a scheduling hint, never a verdict".into()]
    }
    fn plan(&self, tier: Tier) -> Plan {
        Plan { cases: tier.pick(1_200, 60_000), max_recs: 40, max_shrink_iters: 300, workers: 8 }
    }
    fn run(&self, tape: &Tape, want_sample: bool) -> Result<CaseOut, Failure> {
        let (hist, points, r) = run_case(tape);
        let a = r?;
        let mut out = CaseOut { evals: 1, ..Default::default() };
        out.class_n("observations judged", a.observations);
        out.class_n("successful commits", a.commits);
        out.class_n("observations overlapping a commit in real time", a.overlapping_window);
        let named: u64 = points.iter().filter(|p| p.1 != "step.boundary" && p.1 != "start").count() as u64;
        out.class_n("named pause points hit", named);
        if a.nontrivial {
            let mut h = Fnv::new();
            for (w, p) in &points {
                h.write_u64(*w as u64);
                h.write_str(p);
            }
            out.nontrivial.push(h.finish());
        }
        if decode(tape).free_run {
            out.class("free-running case");
        }
        if want_sample {
            out.sample = Some(json!({"threads": decode(tape).programs.iter().map(|p| p.iter().map(|s| format!("{s:?}")).collect::<Vec<_>>()).collect::<Vec<_>>(), "schedule(first 40 parks)": points.iter().take(40).map(|(w, p)| format!("T{w}@{p}")).collect::<Vec<_>>(), "history_events": hist.len()}));
        }
        Ok(out)
    }
    fn extra(&self, tier: Tier, _seed: u64, acc: &mut crate::driver::Acc) -> Vec<(Failure, Option<Tape>)> {
        acc.extra.insert("directed_regressions_run".into(), json!(1));
        let mut out = match catch(directed_read_registered) {
            Ok(Ok(())) => vec![],
            Ok(Err(f)) => vec![(f, None)],
            Err(p) => vec![(crate::driver::panic_failure(p, "directed scenario"), None)],
        };
        // enumerated grid of two-thread gate schedules (src/gates.rs)
        let (st, fails) = crate::gates::run_grid(tier == Tier::Thorough, 8);
        acc.extra.insert("gate_grid".into(), json!({"scenarios_run": st.run, "thread_parked_at_the_point": st.parked, "reader_saw_the_in_flight_commit": st.reader_saw_target,
            "what": "one thread parked at one pause point while the other runs: every (pause point x 1PC/2PC/non-durable x durability pattern before x durability pattern after x cache size)"}));
        out.extend(fails.into_iter().map(|f| (f, None)));
        out
    }
    fn render(&self, tape: &Tape) -> Value {
        let (hist, points, r) = run_case(tape);
        json!({
            "threads": decode(tape).programs.iter().map(|p| p.iter().map(|s| format!("{s:?}")).collect::<Vec<_>>()).collect::<Vec<_>>(),
            "schedule": points.iter().map(|(w, p)| format!("T{w}@{p}")).collect::<Vec<_>>(),
            "history": hist.iter().map(|e| format!("t={} T{} {:?}", e.t, e.thread, e.ev)).collect::<Vec<_>>(),
            "result": r.err().map(|f| f.msg),
        })
    }
}
