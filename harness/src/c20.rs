//! C20: the storage backend is used according to its contract (monitor backend; drop orders,
//! failing opens, injected open faults, read-only databases)

use crate::backend::{FaultMode, RecBackend};
use crate::driver::{CaseOut, Check, Failure, Plan, Tier, catch, normalize_sig};
use crate::dyntab::{AnyOp, DEFS, OpCtx, TableM, open_held};
use crate::hist::*;
use crate::mv::MV;
use crate::tableops::{R, Stop, TOp};
use crate::tape::{Fnv, Tape};
use crate::{sensure, sfail};
use redb::{ReadableDatabase, ReadableTableMetadata};
use serde_json::{Value, json};
use std::sync::Arc;
use std::sync::atomic::{AtomicU64, Ordering};

pub struct C20;

fn profile(_t: &Tape) -> Profile {
    let mut p = Profile::base();
    p.w_reopen = 3;
    p.w_compact = 1;
    p.w_check = 1;
    p.mismatch = 0;
    p.key_universe = 40;
    p.verify_each_commit = false;
    p
}

#[derive(Default)]
struct Out {
    classes: Vec<&'static str>,
    nontrivial: Option<u64>,
    trace: Vec<String>,
}

fn monitor(b: &RecBackend, what: &str) -> R {
    let v = b.monitor_violations();
    sensure!(v.is_empty(), "backend-contract", "{what}: backend contract violated: {:?}", &v[..v.len().min(3)]);
    Ok(())
}

fn closes(b: &RecBackend) -> u32 {
    b.lock().closes
}

/// build a state with the history machine; returns the machine (database open, no write txn)
fn build(tape: &Tape, trace: bool) -> R<Machine> {
    let mut m = Machine::new(decode_cfg(tape), profile(tape), false, trace)?;
    for rec in &tape.recs {
        m.exec(rec)?;
    }
    m.finish()?;
    Ok(m)
}

fn scenario_drop_orders(tape: &Tape, out: &mut Out, trace: bool) -> R {
    let mut m = build(tape, trace)?;
    m.drop_all_handles();
    let backend = m.backend.clone();
    let db = m.db.take().unwrap();
    let mut tables = (*m.last().tables).clone();
    let c = &tape.cfg;
    // handles
    let reader = match db.begin_read() {
        Ok(r) => Some(r),
        Err(e) => sfail!("begin_read", "begin_read failed: {e:?}"),
    };
    let reader_snapshot = tables.clone();
    let mut savepoint = None;
    if c[6] & 1 == 1 {
        let t = match db.begin_write() {
            Ok(t) => t,
            Err(e) => sfail!("begin_write", "begin_write failed: {e:?}"),
        };
        savepoint = match t.ephemeral_savepoint() {
            Ok(s) => Some(s),
            Err(e) => sfail!("savepoint", "ephemeral_savepoint failed: {e:?}"),
        };
        if let Err(e) = t.commit() {
            sfail!("commit", "commit failed: {e:?}");
        }
    }
    let wtxn = match db.begin_write() {
        Ok(t) => t,
        Err(e) => sfail!("begin_write", "begin_write failed: {e:?}"),
    };
    let def = DEFS[0];
    let name = "zz-c20";
    let mut tm = tables.get(name).cloned().unwrap_or_else(|| TableM::new(def));
    let mut ctx = OpCtx::default();
    let write_some = |wtxn: &redb::WriteTransaction, tm: &mut TableM, ctx: &mut OpCtx, base: u64| -> R {
        let mut h = match unsafe { open_held(wtxn, name, def) } {
            Ok(h) => h,
            Err(e) => sfail!("c20-open", "open_table in a live write transaction failed: {e:?}"),
        };
        for i in 0..20u64 {
            let op = AnyOp::T(TOp::Insert { k: MV::U64(base + i), v: MV::Bytes(crate::genr::fill(base + i, 200)) });
            h.apply(&op, tm, ctx)?;
        }
        Ok(())
    };
    write_some(&wtxn, &mut tm, &mut ctx, 0)?;
    // order of events
    #[derive(Clone, Copy, Debug, PartialEq)]
    enum Ev {
        DropDb,
        EndTxn,
        DropReader,
        DropSavepoint,
        UseReader,
        UseTxn,
    }
    let mut evs = vec![Ev::DropDb, Ev::EndTxn, Ev::DropReader, Ev::DropSavepoint, Ev::UseReader, Ev::UseTxn];
    // permutation from the tape (Fisher-Yates with tape bytes)
    let mut seed = u64::from_le_bytes(c[8..16].try_into().unwrap());
    for i in (1..evs.len()).rev() {
        seed = seed.wrapping_mul(6364136223846793005).wrapping_add(1442695040888963407);
        let j = (seed >> 33) as usize % (i + 1);
        evs.swap(i, j);
    }
    let end_kind = c[5] % 3; // commit / abort / drop
    // "every injected backend failure": in a third of the cases close() itself returns an error
    let close_fails = c[7] % 3 == 2; // zero bytes decode to the simplest choice: close() succeeds
    if close_fails {
        backend.lock().fail_close = true;
        out.classes.push("close() returns an error");
    }
    let mut db = Some(db);
    let mut wtxn = Some(wtxn);
    let mut reader = reader;
    let mut committed = false;
    let mut deferred = false;
    for ev in &evs {
        out.trace.push(format!("{ev:?}"));
        match ev {
            Ev::DropDb => {
                let d = db.take();
                if let Err(p) = catch(|| drop(d)) {
                    sfail!(format!("panic:{}", normalize_sig(&p)), "panic dropping the Database: {p}");
                }
                let cl = closes(&backend);
                if wtxn.is_some() {
                    deferred = true;
                    sensure!(cl == 0, "close-early", "close() was called when the Database was dropped although a write transaction is still live");
                } else {
                    sensure!(cl == 1, "close-count", "close() called {cl} times after the Database was dropped with no live write transaction");
                }
            }
            Ev::EndTxn => {
                let t = wtxn.take().unwrap();
                let r = catch(|| match end_kind {
                    0 => t.commit().map_err(|e| format!("{e:?}")),
                    1 => t.abort().map_err(|e| format!("{e:?}")),
                    _ => {
                        drop(t);
                        Ok(())
                    }
                });
                match r {
                    Ok(Ok(())) => {}
                    Ok(Err(e)) => sfail!("c20-end-txn", "ending the write transaction (kind {end_kind}) failed: {e}"),
                    Err(p) => sfail!(format!("panic:{}", normalize_sig(&p)), "panic ending a write transaction: {p}"),
                }
                committed = end_kind == 0;
                let cl = closes(&backend);
                if db.is_none() {
                    sensure!(cl == 1, "close-count-deferred", "close() called {cl} times after the write transaction that outlived its Database ended (expected exactly once)");
                } else {
                    sensure!(cl == 0, "close-early", "close() called while the Database is still alive");
                }
            }
            Ev::DropReader => {
                let r = reader.take();
                if let Err(p) = catch(|| drop(r)) {
                    sfail!(format!("panic:{}", normalize_sig(&p)), "panic dropping a reader: {p}");
                }
            }
            Ev::DropSavepoint => {
                let s = savepoint.take();
                if let Err(p) = catch(|| drop(s)) {
                    sfail!(format!("panic:{}", normalize_sig(&p)), "panic dropping a savepoint: {p}");
                }
            }
            Ev::UseReader => {
                if let Some(rt) = reader.as_ref() {
                    // data of its snapshot, or an error (DatabaseClosed after the close)
                    for (n, t) in reader_snapshot.iter().take(2) {
                        let res = catch(|| crate::dyntab::open_ro(rt, n, t.def()));
                        match res {
                            Ok(Ok(ro)) => match catch(|| ro.full(t)) {
                                Ok(Ok(())) => {}
                                Ok(Err(Stop::Io(_))) => {}
                                Ok(Err(Stop::Fail(f))) => return Err(Stop::Fail(f)),
                                Err(p) => sfail!(format!("panic:{}", normalize_sig(&p)), "panic reading through a reader (database dropped: {}): {p}", db.is_none()),
                            },
                            Ok(Err(redb::TableError::Storage(_))) => {}
                            Ok(Err(e)) => sfail!("c20-reader-open", "reader could not open {n:?}: {e:?}"),
                            Err(p) => sfail!(format!("panic:{}", normalize_sig(&p)), "panic opening a table through a reader: {p}"),
                        }
                    }
                }
            }
            Ev::UseTxn => {
                if let Some(t) = wtxn.as_ref() {
                    // "the transaction remains fully usable" after the Database was dropped
                    write_some(t, &mut tm, &mut ctx, 1000)?;
                }
            }
        }
        monitor(&backend, "drop-order scenario")?;
    }
    drop(reader);
    drop(savepoint);
    let cl = closes(&backend);
    sensure!(cl == 1, "close-count", "close() called {cl} times after every handle was dropped (expected exactly once)");
    monitor(&backend, "drop-order scenario (end)")?;
    // reopen and verify
    if committed {
        tables.insert(name.to_string(), tm);
    }
    let db2 = match catch(|| m.cfg.builder().create_with_backend(backend.reopen_handle())) {
        Ok(Ok(d)) => d,
        Ok(Err(e)) => sfail!("c20-reopen", "reopen after the drop-order scenario failed: {e:?}"),
        Err(p) => sfail!(format!("panic:{}", normalize_sig(&p)), "panic reopening: {p}"),
    };
    verify_db_tables(&db2, &tables)?;
    drop(db2);
    sensure!(closes(&backend) == 1, "close-count", "close() count after final reopen+drop is {}", closes(&backend));
    monitor(&backend, "drop-order scenario (after reopen)")?;
    if deferred {
        out.classes.push("Database dropped while a write transaction was live (deferred close)");
        let mut h = Fnv::new();
        h.write_u64(tape.hash64());
        out.nontrivial = Some(h.finish());
    }
    out.classes.push("drop-order scenario");
    Ok(())
}

fn scenario_failing_open(tape: &Tape, out: &mut Out, trace: bool, with_fault: bool) -> R {
    let mut m = build(tape, trace)?;
    m.drop_all_handles();
    let c = &tape.cfg;
    let unclean = c[5] % 2 == 1;
    let image = if unclean {
        m.backend.image()
    } else {
        let db = m.db.take();
        drop(db);
        m.backend.image()
    };
    let page = m.cfg.page_size;
    let mut img = image.clone();
    let mut abort_repair = false;
    let mut fault: Option<(u64, FaultMode)> = None;
    // reads past the end are judged when the file still holds a complete header and the geometry
    // fields are untouched: every page address must then come from a layout validated against
    // the file length
    let mut judge_reads = false;
    let what: &'static str;
    if with_fault {
        let k = u64::from(c[7]) % 48;
        let mode = if c[6] % 2 == 0 { FaultMode::Once } else { FaultMode::Permanent };
        fault = Some((k, mode));
        what = "open with an injected I/O error";
    } else {
        what = match c[6] % 9 {
            0 => {
                img[c[7] as usize % 9] ^= 0x40;
                "bad magic"
            }
            1 => {
                let other: u32 = if page == 4096 { 8192 } else { 4096 };
                img[12..16].copy_from_slice(&other.to_le_bytes());
                "page size field changed"
            }
            2 => {
                img[20..24].copy_from_slice(&[c[7], c[8], c[9], c[10]]);
                "region max pages garbage"
            }
            3 => {
                img.truncate(100);
                "file shorter than the header"
            }
            4 => {
                // any page boundary from 2 pages up to one page short (zero bytes: half)
                let pages = image.len() / page;
                let sel = u16::from_le_bytes([c[7], c[8]]) as usize;
                let keep = if sel == 0 { (pages / 2).max(2) } else { 2 + sel % (pages.saturating_sub(2)).max(1) };
                img.truncate(keep.min(pages) * page);
                // a cleanly closed file is refused before anything but the header is read; a
                // recovery-required one is repaired by walking its trees, which relies on the
                // backend answering a read past the end with an error (not judged)
                judge_reads = !unclean;
                "file truncated on a page boundary"
            }
            5 => {
                abort_repair = true;
                "repair aborted through the callback"
            }
            6 => {
                img.clear();
                "empty file"
            }
            7 => {
                img.extend(std::iter::repeat_n(0u8, page));
                "file extended by one page"
            }
            _ => {
                img[16..20].copy_from_slice(&[c[7], 0, 0, 0]);
                "region header pages garbage"
            }
        };
    }
    out.trace.push(format!("open of a {} image: {what}", if unclean { "recovery-required" } else { "cleanly closed" }));
    let b = RecBackend::from_image(img, false);
    b.set_fault(fault);
    let mut builder = m.cfg.builder();
    let aborted = Arc::new(AtomicU64::new(0));
    if abort_repair {
        let a = aborted.clone();
        builder.set_repair_callback(move |s| {
            a.fetch_add(1, Ordering::Relaxed);
            s.abort();
        });
    }
    let b2 = b.clone();
    let res = catch(|| builder.create_with_backend(b2));
    match res {
        Ok(Ok(db)) => {
            sensure!(closes(&b) == 0, "close-early", "{what}: open succeeded but close() was already called");
            // usable?
            let r = catch(|| db.begin_read().map(|_| ()));
            if let Err(p) = r {
                sfail!(format!("panic:{}", normalize_sig(&p)), "{what}: panic in begin_read after a successful open: {p}");
            }
            if let Err(p) = catch(|| drop(db)) {
                sfail!(format!("panic:{}", normalize_sig(&p)), "{what}: panic dropping the database: {p}");
            }
            out.classes.push("open succeeded despite the alteration/fault");
        }
        Ok(Err(e)) => {
            out.trace.push(format!("  -> {e:?}"));
            out.classes.push("failing open");
            if b.calls() > 0 {
                let mut h = Fnv::new();
                h.write_u64(tape.hash64());
                out.nontrivial = Some(h.finish());
            }
            if abort_repair {
                sensure!(aborted.load(Ordering::Relaxed) > 0 || !format!("{e:?}").contains("RepairAborted"), "c20-repair", "RepairAborted without the callback being invoked");
            }
        }
        Err(p) => {
            // a panic on a damaged file is "reported abnormally" (see C12); the close contract still holds
            out.trace.push(format!("  -> panic {p}"));
            out.classes.push("open of an altered file panicked (close contract still checked)");
            if with_fault {
                sfail!(format!("panic:{}", normalize_sig(&p)), "panic while opening a healthy file under an injected I/O error: {p}");
            }
        }
    }
    let cl = closes(&b);
    sensure!(cl == 1, "close-count-failed-open", "{what}: close() was called {cl} times for the backend handed to the open (expected exactly once)");
    if with_fault {
        monitor(&b, what)?;
    } else {
        // A deliberately altered file (truncated, geometry garbage) is not a state any history
        // produces; redb relies on the backend answering a read past EOF with an error there
        // (tests/integration_tests.rs read_past_eof_errors). Such reads are counted, not judged;
        // writes beyond the length and calls after close() are still violations.
        let g = b.lock();
        let bad: Vec<&String> = g.oob.iter().filter(|m| judge_reads || !m.starts_with("read ")).chain(g.calls_after_close.iter()).collect();
        sensure!(bad.is_empty(), "backend-contract", "{what}: backend contract violated: {:?}", &bad[..bad.len().min(3)]);
        if !g.oob.is_empty() {
            out.classes.push("altered file: read past EOF answered with an error (counted, not judged)");
        }
        if judge_reads {
            out.classes.push("file truncated on a page boundary (reads past the end judged)");
        }
    }
    out.classes.push(if with_fault { "fault-in-open scenario" } else { "altered-file-open scenario" });
    Ok(())
}

static FILE_COUNTER: AtomicU64 = AtomicU64::new(0);

fn scenario_read_only(tape: &Tape, out: &mut Out, trace: bool) -> R {
    let mut m = build(tape, trace)?;
    m.drop_all_handles();
    let unclean = tape.cfg[5] % 4 == 3;
    let image = if unclean {
        m.backend.image()
    } else {
        let db = m.db.take();
        drop(db);
        m.backend.image()
    };
    // "a read-only database never writes, resizes or syncs" also when the file length does not
    // match the stored layout (e.g. a copy tool that preallocates): refuse or serve, never repair
    let mut image = image;
    let resized = !unclean && tape.cfg[6] % 3 == 2;
    if resized {
        let page = m.cfg.page_size;
        let extra = match tape.cfg[7] % 4 {
            0 => page,
            1 => page * (2 + (tape.cfg[8] as usize % 30)),
            2 => 1 + tape.cfg[8] as usize,
            _ => page * 64,
        };
        image.extend(std::iter::repeat_n(0u8, extra));
    }
    let dir = format!("{}/scratch", crate::driver::verif_root());
    let _ = std::fs::create_dir_all(&dir);
    let path = format!("{dir}/ro-{}-{}.redb", std::process::id(), FILE_COUNTER.fetch_add(1, Ordering::Relaxed));
    if let Err(e) = std::fs::write(&path, &image) {
        let _ = std::fs::remove_file(&path);
        sfail!("harness-io", "cannot write scratch file: {e}");
    }
    let tables = m.last().tables.clone();
    let res = catch(|| -> R {
        match m.cfg.builder().open_read_only(&path) {
            Ok(db) => {
                sensure!(!unclean, "ro-open-unclean", "a recovery-required file was opened read-only");
                verify_db_tables(&db, &tables)?;
                let rt = match db.begin_read() {
                    Ok(t) => t,
                    Err(e) => sfail!("ro-begin-read", "begin_read on a read-only database failed: {e:?}"),
                };
                for (n, t) in tables.iter() {
                    if !t.def().multi {
                        match rt.open_untyped_table(redb::TableDefinition::<u64, u64>::new(n)) {
                            Ok(u) => {
                                let l = match u.len() {
                                    Ok(l) => l,
                                    Err(e) => sfail!("ro-len", "len() failed: {e:?}"),
                                };
                                sensure!(l == t.entries() as u64, "ro-untyped-len", "untyped table {n:?} len {l}, model {}", t.entries());
                            }
                            Err(e) => sfail!("ro-untyped", "open_untyped_table({n:?}) failed: {e:?}"),
                        }
                    }
                }
                drop(rt);
                drop(db);
                Ok(())
            }
            Err(e) => {
                sensure!(unclean || resized, "ro-open-failed", "open_read_only of a cleanly closed file failed: {e:?}");
                Ok(())
            }
        }
    });
    let after = std::fs::read(&path);
    let _ = std::fs::remove_file(&path);
    match res {
        Ok(r) => r?,
        Err(p) => sfail!(format!("panic:{}", normalize_sig(&p)), "panic using a read-only database: {p}"),
    }
    match after {
        Ok(bytes) => sensure!(bytes == image, "ro-file-modified", "the file changed while open read-only ({} -> {} bytes, first difference at {:?})", image.len(), bytes.len(), image.iter().zip(bytes.iter()).position(|(a, b)| a != b)),
        Err(e) => sfail!("harness-io", "cannot re-read scratch file: {e}"),
    }
    out.classes.push(if unclean {
        "read-only open of a recovery-required file (refused)"
    } else if resized {
        "read-only open of a clean file whose length was changed externally (refused or served; file bytes compared)"
    } else {
        "read-only scenario (file bytes compared)"
    });
    Ok(())
}

fn run_case(tape: &Tape, trace: bool) -> (Out, Result<(), Failure>) {
    let mut out = Out::default();
    let r = match tape.cfg[3] % 8 {
        0..=2 => scenario_drop_orders(tape, &mut out, trace),
        3 | 4 => scenario_failing_open(tape, &mut out, trace, false),
        5 | 6 => scenario_failing_open(tape, &mut out, trace, true),
        _ => scenario_read_only(tape, &mut out, trace),
    };
    (out, r.map_err(stop_failure))
}

impl Check for C20 {
    fn id(&self) -> &'static str {
        "C20"
    }
    fn rule(&self) -> String {
        "every hist/crash/fault run of the other checks carries the monitor backend (bounds, nothing after close, close exactly once); C20's own tapes build a state with the history machine and then run one of: (a) drop orders: reader, ephemeral savepoint, a write transaction with uncommitted inserts and the Database are dropped/ended in a tape-chosen permutation (txn ended by commit/abort/drop), the transaction must stay usable after the Database is gone, close() must be called exactly when the last of {Database, live write transaction} goes, never twice, never followed by another call, and a reopen must show the right contents; (b) failing opens of clean or recovery-required images: bad magic, page size field, region geometry garbage, short/truncated/extended/empty file, repair aborted by callback; (c) open with the k-th backend call failing once/permanently; (d) ReadOnlyDatabase on a real file: contents equal the model, untyped opens, file bytes identical afterwards, recovery-required files refused. Non-trivial: a deferred close (Database dropped before its write transaction) or a failed open after >=1 backend call; distinct by tape hash.".into()
    }
    fn assumptions(&self) -> Vec<String> {
        vec!["thread interleavings of drops are covered only by C03's engine".into(), "a panic while opening a deliberately damaged file is counted, not judged (C12); the close contract is still checked after unwinding".into()]
    }
    fn plan(&self, tier: Tier) -> Plan {
        Plan { cases: tier.pick(40_000, 800_000), max_recs: 50, max_shrink_iters: 2000, workers: 16 }
    }
    fn run(&self, tape: &Tape, want_sample: bool) -> Result<CaseOut, Failure> {
        let (o, r) = run_case(tape, want_sample);
        r?;
        let mut out = CaseOut { evals: 1, ..Default::default() };
        for c in &o.classes {
            out.class(c);
        }
        if let Some(h) = o.nontrivial {
            out.nontrivial.push(h);
        }
        if want_sample {
            out.sample = Some(json!({"config": decode_cfg(tape).json(), "history_ops": tape.recs.len(), "scenario": o.trace}));
        }
        Ok(out)
    }
    fn render(&self, tape: &Tape) -> Value {
        let (o, r) = run_case(tape, true);
        json!({"config": decode_cfg(tape).json(), "scenario": o.trace, "classes": o.classes, "result": r.err().map(|f| f.msg)})
    }
}
