//! `gates`: an enumerated grid of directed two-thread schedules for C03 (and the snapshot side of
//! C02). One thread is parked at one named pause point (hook H2) while the other performs a chosen
//! sequence of calls; every combination of (pause point, commit kind, durability pattern before,
//! durability pattern after, cache size) is executed. This complements the random schedules of
//! `c03::run_case`, whose hit rate for a specific two-step interleaving depends on machine load.
//!
//! Oracle (same as C03/C02): the reader sees exactly one commit k, all rows of both tables derived
//! from (k, nonce); lo <= k <= hi for the commits completed before begin_read was called / begun
//! before it returned; the held reader sees the same rows after any number of later commits; a
//! fresh reader after everything sees the last commit; check_integrity() == Ok(true).

use crate::backend::RecBackend;
use crate::c03::{observe_read, write_all};
use crate::driver::{Failure, catch};
use crate::genr::DbCfg;
use crate::sched::{Ctl, PauseHandler, register_handler};
use redb::{Database, Durability, ReadTransaction, ReadableDatabase};
use std::sync::atomic::{AtomicBool, Ordering};
use std::sync::mpsc::{Receiver, Sender, channel};
use std::sync::{Arc, Condvar, Mutex};
use std::time::Duration;

pub const WRITER_POINTS_DURABLE: [&str; 6] = ["commit.horizon", "commit.before_publish", "commit.published", "mem.commit.flushed", "epilogue.horizon", "epilogue.before_publish"];
pub const WRITER_POINTS_ND: [&str; 2] = ["ndcommit.horizon", "ndcommit.published"];

#[derive(Clone, Debug)]
pub struct Scenario {
    /// true: the writer is parked at `point` inside the target commit and the reader begins;
    /// false: the reader is parked at read.registered and the writer performs `mid`
    pub writer_parked: bool,
    pub point: &'static str,
    /// durability of the commits before (true = Durability::None)
    pub pre: Vec<bool>,
    /// the target commit (writer_parked) or the commits made while the reader is parked
    pub mid: Vec<(bool, bool)>, // (nondurable, two_phase)
    pub churn: Vec<bool>,
    pub cache: usize,
    /// an ephemeral savepoint taken after the first commit: 0 none, 1 dropped while the other
    /// thread is parked, 2 restored after the churn while the reader is still alive
    pub sp: u8,
}

struct Gate {
    point: &'static str,
    armed: AtomicBool,
    st: Mutex<(bool, bool)>, // (parked, released)
    cv: Condvar,
    ev: Mutex<Sender<Evt>>,
}

impl PauseHandler for Gate {
    fn at(&self, _me: usize, point: &'static str) {
        if point == self.point && self.armed.swap(false, Ordering::SeqCst) {
            let mut g = self.st.lock().unwrap();
            g.0 = true;
            let _ = self.ev.lock().unwrap().send(Evt::Parked);
            while !g.1 {
                g = self.cv.wait(g).unwrap();
            }
        }
    }
}

impl Gate {
    fn release(&self) {
        let mut g = self.st.lock().unwrap();
        g.1 = true;
        self.cv.notify_all();
    }
}

type Obs = (Option<(u64, u64)>, Option<(u64, u64)>, bool);

enum Evt {
    Parked,
    Writer(Result<(), String>),
    Reader(Result<Option<Obs>, String>),
}

enum RCmd {
    Begin,
    Observe,
    Drop,
}

enum WCmd {
    Commit { k: u64, nd: bool, two_phase: bool },
}

fn commit(db: &Database, k: u64, nd: bool, two_phase: bool) -> Result<(), String> {
    let mut w = db.begin_write().map_err(|e| format!("{e:?}"))?;
    if nd {
        w.set_durability(Durability::None).map_err(|e| format!("{e:?}"))?;
    }
    if two_phase && !nd {
        w.set_two_phase_commit(true);
    }
    write_all(&w, k, k)?;
    w.commit().map_err(|e| format!("{e:?}"))
}

pub struct Outcome {
    pub parked: bool,
    pub reader_k: Option<u64>,
}

fn recv(rx: &Receiver<Evt>, what: &str) -> Result<Evt, Failure> {
    rx.recv_timeout(Duration::from_secs(20)).map_err(|_| Failure::new("harness-gate-timeout", format!("gate scenario: no progress waiting for {what}")))
}

pub fn run_scenario(sc: &Scenario) -> Result<Outcome, Failure> {
    let desc = format!("{sc:?}");
    let fail = |sig: &str, m: String| Failure::new(sig, format!("gate scenario {desc}: {m}"));
    let cfg = DbCfg { page_size: 512, region_size: 65536, cache_size: sc.cache };
    let db = Arc::new(cfg.builder().create_with_backend(RecBackend::new(false)).map_err(|e| Failure::new("create", format!("{e:?}")))?);
    let (etx, erx) = channel::<Evt>();
    let gate = Arc::new(Gate { point: sc.point, armed: AtomicBool::new(false), st: Mutex::new((false, false)), cv: Condvar::new(), ev: Mutex::new(etx.clone()) });

    // writer thread
    let (wtx, wrx) = channel::<WCmd>();
    let (dbw, gw, ew, wp) = (db.clone(), gate.clone(), etx.clone(), sc.writer_parked);
    let writer = std::thread::spawn(move || {
        if wp {
            let h: Arc<dyn PauseHandler> = gw;
            register_handler(h, 0);
        }
        while let Ok(WCmd::Commit { k, nd, two_phase }) = wrx.recv() {
            let r = match catch(|| commit(&dbw, k, nd, two_phase)) {
                Ok(r) => r,
                Err(p) => Err(format!("panic: {p}")),
            };
            let _ = ew.send(Evt::Writer(r));
        }
        Ctl::unregister();
    });
    // reader thread
    let (rtx, rrx) = channel::<RCmd>();
    let (dbr, gr, er) = (db.clone(), gate.clone(), etx.clone());
    let reader = std::thread::spawn(move || {
        if !wp {
            let h: Arc<dyn PauseHandler> = gr;
            register_handler(h, 1);
        }
        let mut rt: Option<ReadTransaction> = None;
        while let Ok(c) = rrx.recv() {
            let r = catch(|| -> Result<Option<Obs>, String> {
                match c {
                    RCmd::Begin => {
                        rt = Some(dbr.begin_read().map_err(|e| format!("{e:?}"))?);
                        Ok(None)
                    }
                    RCmd::Observe => Ok(Some(observe_read(rt.as_ref().ok_or("no reader")?)?)),
                    RCmd::Drop => {
                        rt = None;
                        Ok(None)
                    }
                }
            });
            let _ = er.send(Evt::Reader(match r {
                Ok(r) => r,
                Err(p) => Err(format!("panic: {p}")),
            }));
        }
        Ctl::unregister();
    });

    let mut k = 0u64;
    let mut result: Result<Outcome, Failure> = (|| {
        let wcommit = |k: u64, nd: bool, tp: bool| -> Result<(), Failure> {
            wtx.send(WCmd::Commit { k, nd, two_phase: tp }).map_err(|_| fail("harness", "writer gone".into()))?;
            Ok(())
        };
        let wwait = |what: &str| -> Result<(), Failure> {
            loop {
                match recv(&erx, what)? {
                    Evt::Writer(Ok(())) => return Ok(()),
                    Evt::Writer(Err(e)) if e.starts_with("panic: ") => return Err(fail("snapshot-freed-under-reader", format!("the writer panicked during {what}: {e}"))),
                    Evt::Writer(Err(e)) => return Err(fail("sched-unexpected-error", format!("{what} failed: {e}"))),
                    Evt::Parked => continue,
                    Evt::Reader(_) => return Err(fail("harness", "unexpected reader reply".into())),
                }
            }
        };
        let rcmd = |c: RCmd| -> Result<(), Failure> { rtx.send(c).map_err(|_| fail("harness", "reader gone".into())) };
        let rwait = |what: &str| -> Result<Option<Obs>, Failure> {
            match recv(&erx, what)? {
                Evt::Reader(Ok(o)) => Ok(o),
                Evt::Reader(Err(e)) => Err(fail("snapshot-moved", format!("the reader failed in {what}: {e}"))),
                _ => Err(fail("harness", format!("unexpected event waiting for {what}"))),
            }
        };
        // always one durable commit first so both tables exist
        k += 1;
        wcommit(k, false, false)?;
        wwait("setup commit")?;
        let mut savepoint = None;
        if sc.sp != 0 {
            let w = db.begin_write().map_err(|e| fail("harness", format!("{e:?}")))?;
            savepoint = Some(w.ephemeral_savepoint().map_err(|e| fail("harness", format!("ephemeral_savepoint: {e:?}")))?);
            w.commit().map_err(|e| fail("harness", format!("{e:?}")))?;
        }
        for nd in &sc.pre {
            k += 1;
            wcommit(k, *nd, false)?;
            wwait("pre commit")?;
        }
        let lo = k;
        let mut parked = false;
        let first: Obs;
        if sc.writer_parked {
            let (nd, tp) = sc.mid[0];
            k += 1;
            gate.armed.store(true, Ordering::SeqCst);
            wcommit(k, nd, tp)?;
            // parked, or the commit finished without passing the point
            let mut finished = false;
            match recv(&erx, "target commit to park")? {
                Evt::Parked => parked = true,
                Evt::Writer(Ok(())) => finished = true,
                Evt::Writer(Err(e)) => return Err(fail("sched-unexpected-error", format!("target commit failed: {e}"))),
                Evt::Reader(_) => return Err(fail("harness", "unexpected reader reply".into())),
            }
            gate.armed.store(false, Ordering::SeqCst);
            rcmd(RCmd::Begin)?;
            rwait("begin_read")?;
            rcmd(RCmd::Observe)?;
            first = rwait("first observation")?.unwrap();
            if sc.sp == 1 {
                drop(savepoint.take());
            }
            gate.release();
            if !finished {
                wwait("target commit")?;
            }
        } else {
            gate.armed.store(true, Ordering::SeqCst);
            rcmd(RCmd::Begin)?;
            match recv(&erx, "reader to park")? {
                Evt::Parked => parked = true,
                Evt::Reader(Ok(_)) => {}
                Evt::Reader(Err(e)) => return Err(fail("snapshot-moved", format!("begin_read failed: {e}"))),
                Evt::Writer(_) => return Err(fail("harness", "unexpected writer reply".into())),
            }
            for (nd, tp) in &sc.mid {
                k += 1;
                wcommit(k, *nd, *tp)?;
                wwait("commit while the reader is parked")?;
            }
            if sc.sp == 1 {
                drop(savepoint.take());
            }
            gate.release();
            if parked {
                rwait("begin_read")?;
            }
            rcmd(RCmd::Observe)?;
            first = rwait("first observation")?.unwrap();
        }
        let hi = k;
        let (kx, ky, cons) = first;
        if !cons {
            return Err(fail("torn-rows", format!("first observation not consistent: x={kx:?} y={ky:?}")));
        }
        if kx != ky {
            return Err(fail("mixed-commit", format!("tables from different commits: x={kx:?} y={ky:?}")));
        }
        let rk = kx.map(|p| p.0).unwrap_or(0);
        if rk < lo || rk > hi {
            return Err(fail("stale-or-future", format!("reader saw commit {rk}, allowed {lo}..={hi}")));
        }
        for nd in &sc.churn {
            k += 1;
            wcommit(k, *nd, false)?;
            wwait("churn commit")?;
        }
        rcmd(RCmd::Observe)?;
        let again = rwait("second observation")?.unwrap();
        if again != first {
            return Err(fail("snapshot-moved", format!("the read transaction's contents changed while it was alive: first {first:?}, later {again:?}")));
        }
        if sc.sp == 2 {
            let sp = savepoint.take().unwrap();
            let mut w = db.begin_write().map_err(|e| fail("harness", format!("{e:?}")))?;
            match catch(|| w.restore_savepoint(&sp)) {
                Ok(Ok(())) => {}
                Ok(Err(e)) => return Err(fail("restore-failed", format!("restoring a valid ephemeral savepoint failed: {e:?}"))),
                Err(p) => return Err(fail("snapshot-freed-under-reader", format!("restore_savepoint panicked while a reader was alive: {p}"))),
            }
            match catch(|| w.commit()) {
                Ok(Ok(())) => {}
                Ok(Err(e)) => return Err(fail("sched-unexpected-error", format!("commit after restore failed: {e:?}"))),
                Err(p) => return Err(fail("snapshot-freed-under-reader", format!("commit after restore panicked while a reader was alive: {p}"))),
            }
            drop(sp);
            let rt = db.begin_read().map_err(|e| fail("harness", format!("{e:?}")))?;
            let now = observe_read(&rt).map_err(|e| fail("restore-content", e))?;
            drop(rt);
            if now != (Some((1, 1)), Some((1, 1)), true) {
                return Err(fail("restore-content", format!("after restoring the savepoint taken at commit 1 a fresh reader saw {now:?}")));
            }
            rcmd(RCmd::Observe)?;
            let third = rwait("observation after the restore")?.unwrap();
            if third != first {
                return Err(fail("snapshot-moved", format!("the read transaction's contents changed after a savepoint restore: first {first:?}, later {third:?}")));
            }
        }
        rcmd(RCmd::Drop)?;
        rwait("drop")?;
        drop(savepoint.take());
        for nd in [true, false] {
            k += 1;
            wcommit(k, nd, false)?;
            wwait("closing commit")?;
        }
        rcmd(RCmd::Begin)?;
        rwait("begin_read")?;
        rcmd(RCmd::Observe)?;
        let last = rwait("final observation")?.unwrap();
        if last != (Some((k, k)), Some((k, k)), true) {
            return Err(fail("lost-commit", format!("after all commits a fresh reader saw {last:?}, expected commit {k}")));
        }
        rcmd(RCmd::Drop)?;
        rwait("drop")?;
        // nothing is alive any more: the pending-free lists drain and the accounting is exact
        let mut drained = false;
        for _ in 0..6 {
            let a = crate::account::account(&db).map_err(|e| fail("page-accounting", format!("after the scenario: {e}")))?;
            if a.pending_free == 0 {
                drained = true;
                break;
            }
            // an empty durable commit (a rewriting commit would add new pending frees)
            let w = db.begin_write().map_err(|e| fail("harness", format!("{e:?}")))?;
            w.commit().map_err(|e| fail("harness", format!("{e:?}")))?;
        }
        if !drained {
            return Err(fail("pending-free-not-drained", "pages still pending free after 6 empty durable commits with nothing alive".into()));
        }
        Ok(Outcome { parked, reader_k: Some(rk) })
    })();
    gate.armed.store(false, Ordering::SeqCst);
    gate.release();
    drop(wtx);
    drop(rtx);
    let _ = writer.join();
    let _ = reader.join();
    if result.is_ok() {
        match catch(|| {
            let mut db = Arc::try_unwrap(db).map_err(|_| "db still shared".to_string())?;
            db.check_integrity().map_err(|e| format!("{e:?}"))
        }) {
            Ok(Ok(true)) => {}
            Ok(Ok(false)) => result = Err(fail("integrity-false", "check_integrity() returned Ok(false) after the scenario".into())),
            Ok(Err(e)) => result = Err(fail("integrity-error", format!("check_integrity(): {e}"))),
            Err(p) => result = Err(fail("integrity-panic", format!("check_integrity() panicked: {p}"))),
        }
    }
    result
}

pub fn grid(thorough: bool) -> Vec<Scenario> {
    let pres: Vec<Vec<bool>> = vec![vec![], vec![true], vec![false], vec![true, true], vec![false, true], vec![true, false], vec![true, true, true]];
    let churns: Vec<Vec<bool>> = if thorough {
        vec![vec![true, true, true], vec![false, false], vec![true, false, true], vec![false, true, true], vec![true], vec![false], vec![true, true, true, true, true]]
    } else {
        vec![vec![true, true, true], vec![false, false], vec![true, false, true]]
    };
    let caches: Vec<usize> = if thorough { vec![0, 4096, 1 << 20] } else { vec![0, 1 << 20] };
    let mut out = vec![];
    for sp in [0u8, 1, 2] {
    for cache in &caches {
        for pre in &pres {
            for churn in &churns {
                for p in WRITER_POINTS_DURABLE {
                    for tp in [false, true] {
                        out.push(Scenario { writer_parked: true, point: p, pre: pre.clone(), mid: vec![(false, tp)], churn: churn.clone(), cache: *cache, sp });
                    }
                }
                for p in WRITER_POINTS_ND {
                    out.push(Scenario { writer_parked: true, point: p, pre: pre.clone(), mid: vec![(true, false)], churn: churn.clone(), cache: *cache, sp });
                }
                let mids: Vec<Vec<(bool, bool)>> = vec![vec![(true, false)], vec![(false, false)], vec![(true, false), (true, false)], vec![(false, true), (true, false)], vec![(true, false), (false, false)]];
                for mid in mids {
                    out.push(Scenario { writer_parked: false, point: "read.registered", pre: pre.clone(), mid, churn: churn.clone(), cache: *cache, sp });
                }
            }
        }
    }
    }
    out
}

pub struct GridStats {
    pub run: u64,
    pub parked: u64,
    pub reader_saw_target: u64,
}

/// run the whole grid on `threads` threads; returns statistics and the failures (first per signature)
pub fn run_grid(thorough: bool, threads: usize) -> (GridStats, Vec<Failure>) {
    let scs = grid(thorough);
    let next = std::sync::atomic::AtomicUsize::new(0);
    let stats = Mutex::new((0u64, 0u64, 0u64));
    let fails: Mutex<Vec<Failure>> = Mutex::new(vec![]);
    std::thread::scope(|s| {
        for _ in 0..threads {
            s.spawn(|| {
                loop {
                    let i = next.fetch_add(1, Ordering::SeqCst);
                    if i >= scs.len() || !fails.lock().unwrap().is_empty() {
                        break;
                    }
                    let sc = &scs[i];
                    let r = match catch(|| run_scenario(sc)) {
                        Ok(r) => r,
                        Err(p) => Err(crate::driver::panic_failure(p, &format!("gate scenario {sc:?}"))),
                    };
                    match r {
                        Ok(o) => {
                            let mut g = stats.lock().unwrap();
                            g.0 += 1;
                            g.1 += u64::from(o.parked);
                            let pre_k = 1 + sc.pre.len() as u64;
                            g.2 += u64::from(o.reader_k.is_some_and(|k| k > pre_k));
                        }
                        Err(f) => fails.lock().unwrap().push(f),
                    }
                }
            });
        }
    });
    let g = stats.lock().unwrap();
    (GridStats { run: g.0, parked: g.1, reader_saw_target: g.2 }, fails.into_inner().unwrap())
}
