//! The tape: one fixed configuration record followed by fixed-width operation records.
//! Decoding is total; zero bytes decode to the simplest choice; indices map monotonically.

use std::fmt::Write;

pub const CFG_LEN: usize = 16;
pub const REC_LEN: usize = 12;

#[derive(Clone, Debug, PartialEq, Eq, Hash)]
pub struct Tape {
    pub cfg: [u8; CFG_LEN],
    pub recs: Vec<[u8; REC_LEN]>,
}

impl Tape {
    pub fn to_hex(&self) -> String {
        let mut s = String::new();
        for b in self.cfg {
            write!(s, "{b:02x}").unwrap();
        }
        for r in &self.recs {
            s.push(' ');
            for b in r {
                write!(s, "{b:02x}").unwrap();
            }
        }
        s
    }

    pub fn from_hex(s: &str) -> Option<Tape> {
        let mut parts = s.split_whitespace();
        let cfgs = parts.next()?;
        let cfgv = unhex(cfgs)?;
        if cfgv.len() != CFG_LEN {
            return None;
        }
        let mut cfg = [0u8; CFG_LEN];
        cfg.copy_from_slice(&cfgv);
        let mut recs = vec![];
        for p in parts {
            let v = unhex(p)?;
            if v.len() != REC_LEN {
                return None;
            }
            let mut r = [0u8; REC_LEN];
            r.copy_from_slice(&v);
            recs.push(r);
        }
        Some(Tape { cfg, recs })
    }

    /// Build a tape from raw fuzzer bytes (chunked; short tail padded with zeros)
    pub fn from_bytes(data: &[u8]) -> Tape {
        let mut cfg = [0u8; CFG_LEN];
        let n = data.len().min(CFG_LEN);
        cfg[..n].copy_from_slice(&data[..n]);
        let mut recs = vec![];
        if data.len() > CFG_LEN {
            for ch in data[CFG_LEN..].chunks(REC_LEN) {
                let mut r = [0u8; REC_LEN];
                r[..ch.len()].copy_from_slice(ch);
                recs.push(r);
            }
        }
        Tape { cfg, recs }
    }

    pub fn to_bytes(&self) -> Vec<u8> {
        let mut v = self.cfg.to_vec();
        for r in &self.recs {
            v.extend_from_slice(r);
        }
        v
    }

    pub fn hash64(&self) -> u64 {
        let mut h = Fnv::new();
        h.write(&self.cfg);
        for r in &self.recs {
            h.write(r);
        }
        h.finish()
    }
}

fn unhex(s: &str) -> Option<Vec<u8>> {
    if s.len() % 2 != 0 {
        return None;
    }
    (0..s.len())
        .step_by(2)
        .map(|i| u8::from_str_radix(&s[i..i + 2], 16).ok())
        .collect()
}

/// Small deterministic hasher (FNV-1a 64) -- no dependence on std's randomized hasher
#[derive(Clone)]
pub struct Fnv(u64);
impl Fnv {
    pub fn new() -> Self {
        Fnv(0xcbf29ce484222325)
    }
    pub fn write(&mut self, data: &[u8]) {
        for b in data {
            self.0 ^= u64::from(*b);
            self.0 = self.0.wrapping_mul(0x100000001b3);
        }
    }
    pub fn write_u64(&mut self, v: u64) {
        self.write(&v.to_le_bytes());
    }
    pub fn write_str(&mut self, s: &str) {
        self.write(s.as_bytes());
        self.write(&[0xff]);
    }
    pub fn finish(&self) -> u64 {
        self.0
    }
}
impl Default for Fnv {
    fn default() -> Self {
        Self::new()
    }
}

/// Reader over one record: hands out bytes/u16s in order; exhausted reads give 0 (or, for a
/// reader made with `new_extended`, the bytes of a splitmix64 stream seeded by the record itself,
/// so that a case stays a pure function of the tape).
pub struct Rec<'a> {
    b: &'a [u8],
    i: usize,
    x: u64,
    xbuf: u64,
    xn: u8,
}

impl<'a> Rec<'a> {
    pub fn new(b: &'a [u8]) -> Self {
        Rec { b, i: 0, x: 0, xbuf: 0, xn: 0 }
    }
    /// for consumers that need more bytes than one record holds (C15: three 16-byte integers)
    pub fn new_extended(b: &'a [u8]) -> Self {
        let mut h = Fnv::new();
        for &c in b {
            h.write_u64(u64::from(c));
        }
        Rec { b, i: 0, x: h.finish() | 1, xbuf: 0, xn: 0 }
    }
    pub fn u8(&mut self) -> u8 {
        let v = match self.b.get(self.i) {
            Some(v) => *v,
            None if self.x == 0 => 0,
            None => {
                if self.xn == 0 {
                    self.x = self.x.wrapping_add(0x9E37_79B9_7F4A_7C15);
                    let mut z = self.x;
                    z = (z ^ (z >> 30)).wrapping_mul(0xBF58_476D_1CE4_E5B9);
                    z = (z ^ (z >> 27)).wrapping_mul(0x94D0_49BB_1331_11EB);
                    self.xbuf = z ^ (z >> 31);
                    self.xn = 8;
                }
                let v = self.xbuf as u8;
                self.xbuf >>= 8;
                self.xn -= 1;
                v
            }
        };
        self.i += 1;
        v
    }
    pub fn u16(&mut self) -> u16 {
        let lo = self.u8();
        let hi = self.u8();
        u16::from_le_bytes([lo, hi])
    }
    pub fn u32(&mut self) -> u32 {
        let a = self.u16();
        let b = self.u16();
        u32::from(a) | (u32::from(b) << 16)
    }
    pub fn bool(&mut self) -> bool {
        self.u8() & 1 == 1
    }
    /// monotone index in 0..n from one byte (n <= 256)
    pub fn idx8(&mut self, n: usize) -> usize {
        debug_assert!(n > 0);
        let v = self.u8() as usize;
        if n >= 256 { v } else { v * n >> 8 }
    }
    /// monotone index in 0..n from two bytes
    pub fn idx16(&mut self, n: usize) -> usize {
        debug_assert!(n > 0);
        let v = self.u16() as usize;
        v * n >> 16
    }
    /// weighted choice: returns index into weights; byte 0 maps to first non-zero weight
    pub fn weighted(&mut self, weights: &[u32]) -> usize {
        let total: u32 = weights.iter().sum();
        debug_assert!(total > 0);
        let v = u32::from(self.u8());
        let mut x = v * total >> 8;
        for (i, w) in weights.iter().enumerate() {
            if x < *w {
                return i;
            }
            x -= *w;
        }
        weights.len() - 1
    }
}

pub fn idx8(v: u8, n: usize) -> usize {
    (v as usize) * n >> 8
}
