//! C08, clause "reads keep returning correct committed data or an error", for the stateful readers
//! of the API: cursors (`Cursor` on a read transaction, `CursorMut` inside a write transaction) and
//! range iterators. A table with many leaves is committed, part of it is brought into the page
//! cache by point lookups, the cursor is positioned, and then ONE backend call fails (the k-th from
//! now). The cursor keeps being used. Oracle: walking forward (or backward) every `Ok(Some(entry))`
//! must be exactly the next (previous) entry of the committed contents after the last entry that
//! was returned -- an error may come instead, any number of times, but no entry may be skipped,
//! repeated or altered, and `Ok(None)` may only come at the true end.

use crate::backend::{FaultMode, RecBackend};
use crate::driver::{Failure, catch};
use crate::genr::{DbCfg, fill};
use redb::{ReadableDatabase, ReadableTable, TableDefinition};
use std::ops::Bound;

const T: TableDefinition<u64, &[u8]> = TableDefinition::new("c");

#[derive(Clone, Copy, Debug)]
pub struct Sc {
    pub seed: u64,
    pub page: usize,
    pub cache: usize,
    pub rows: u64,
    /// which reader: 0 CursorMut in a write transaction, 1 Cursor in a read transaction, 2 range iterator
    pub reader: u8,
    pub backward: bool,
    /// the fault hits the k-th backend call after the reader was positioned
    pub k: u64,
    pub start: u64,
    pub warm_every: u64,
}

fn val(seed: u64, k: u64) -> Vec<u8> {
    fill(seed ^ (k << 16), 90 + ((seed as usize % 7 + k as usize * 13) % 11) * 23)
}

#[derive(Default)]
pub struct Out {
    pub fault_fired: bool,
    pub errors_seen: u32,
    pub ok_after_error: u32,
}

pub fn run(sc: Sc) -> Result<Out, Failure> {
    let fail = |sig: &str, m: String| Failure::new(sig, format!("cursor under a storage fault {sc:?}: {m}"));
    let cfg = DbCfg { page_size: sc.page, region_size: (sc.page as u64 * 64).max(65536), cache_size: sc.cache };
    let backend = RecBackend::new(false);
    let db = cfg.builder().create_with_backend(backend.clone()).map_err(|e| Failure::new("create", format!("{e:?}")))?;
    {
        let w = db.begin_write().map_err(|e| fail("harness", format!("{e:?}")))?;
        {
            let mut t = w.open_table(T).map_err(|e| fail("harness", format!("{e:?}")))?;
            for k in 0..sc.rows {
                t.insert(k * 10, val(sc.seed, k * 10).as_slice()).map_err(|e| fail("harness", format!("{e:?}")))?;
            }
        }
        w.commit().map_err(|e| fail("harness", format!("{e:?}")))?;
    }
    // reopen: the cache starts empty; warm a subset of the leaves through point lookups
    drop(db);
    let db = cfg.builder().create_with_backend(backend.reopen_handle()).map_err(|e| fail("harness", format!("reopen: {e:?}")))?;
    {
        let rt = db.begin_read().map_err(|e| fail("harness", format!("{e:?}")))?;
        let t = rt.open_table(T).map_err(|e| fail("harness", format!("{e:?}")))?;
        let mut k = sc.warm_every;
        while sc.warm_every > 0 && k < sc.rows {
            let _ = t.get(k * 10).map_err(|e| fail("harness", format!("{e:?}")))?;
            k += sc.warm_every;
        }
    }
    let start_key = (sc.start % sc.rows) * 10;
    let mut out = Out::default();
    // expected sequence from the gap
    let expected: Vec<u64> = if sc.backward { (0..sc.start % sc.rows).rev().map(|k| k * 10).collect() } else { (sc.start % sc.rows..sc.rows).map(|k| k * 10).collect() };
    let mut idx = 0usize;
    let mut judge = |r: Result<Option<(u64, Vec<u8>)>, String>, out: &mut Out, step: usize| -> Result<bool, Failure> {
        match r {
            Err(_) => {
                out.errors_seen += 1;
                Ok(true)
            }
            Ok(None) => {
                if idx < expected.len() {
                    return Err(fail("cursor-skipped-after-error", format!("step {step}: the reader reported the end although {} committed entries remain (next {:?}); {} errors had been returned before", expected.len() - idx, expected.get(idx), out.errors_seen)));
                }
                Ok(false)
            }
            Ok(Some((k, v))) => {
                if out.errors_seen > 0 {
                    out.ok_after_error += 1;
                }
                match expected.get(idx) {
                    Some(e) if *e == k && v == val(sc.seed, k) => {
                        idx += 1;
                        Ok(true)
                    }
                    Some(e) => Err(fail(
                        if out.errors_seen > 0 { "cursor-skipped-after-error" } else { "cursor-entry" },
                        format!("step {step}: the reader returned key {k} ({} value bytes), the committed contents continue with key {e}; {} errors had been returned before", v.len(), out.errors_seen),
                    )),
                    None => Err(fail("cursor-entry", format!("step {step}: the reader returned key {k} past the end of the committed contents"))),
                }
            }
        }
    };
    let steps = expected.len().min(160) + 2;
    let arm = |b: &RecBackend| {
        let now = b.calls();
        b.set_fault(Some((now + sc.k, FaultMode::Once)));
    };
    let res = catch(|| -> Result<(), Failure> {
        match sc.reader {
            0 => {
                let w = db.begin_write().map_err(|e| fail("harness", format!("{e:?}")))?;
                {
                    let mut t = w.open_table(T).map_err(|e| fail("harness", format!("{e:?}")))?;
                    let mut c = t.lower_bound_mut(Bound::Included(start_key)).map_err(|e| fail("harness", format!("{e:?}")))?;
                    arm(&backend);
                    for s in 0..steps {
                        let r = if sc.backward { c.prev() } else { c.next() };
                        let r = r.map(|o| o.map(|(k, v)| (k.value(), v.value().to_vec()))).map_err(|e| format!("{e:?}"));
                        if !judge(r, &mut out, s)? {
                            break;
                        }
                    }
                    let _ = c.close();
                }
                let _ = w.abort();
            }
            1 => {
                let rt = db.begin_read().map_err(|e| fail("harness", format!("{e:?}")))?;
                let t = rt.open_table(T).map_err(|e| fail("harness", format!("{e:?}")))?;
                let mut c = t.lower_bound(Bound::Included(start_key)).map_err(|e| fail("harness", format!("{e:?}")))?;
                arm(&backend);
                for s in 0..steps {
                    let r = if sc.backward { c.prev() } else { c.next() };
                    let r = r.map(|o| o.map(|(k, v)| (k.value(), v.value().to_vec()))).map_err(|e| format!("{e:?}"));
                    if !judge(r, &mut out, s)? {
                        break;
                    }
                }
            }
            _ => {
                let rt = db.begin_read().map_err(|e| fail("harness", format!("{e:?}")))?;
                let t = rt.open_table(T).map_err(|e| fail("harness", format!("{e:?}")))?;
                let mut it = if sc.backward { t.range(..start_key) } else { t.range(start_key..) }.map_err(|e| fail("harness", format!("{e:?}")))?;
                arm(&backend);
                for s in 0..steps {
                    let n = if sc.backward { it.next_back() } else { it.next() };
                    let r = match n {
                        None => Ok(None),
                        Some(Ok((k, v))) => Ok(Some((k.value(), v.value().to_vec()))),
                        Some(Err(e)) => Err(format!("{e:?}")),
                    };
                    if !judge(r, &mut out, s)? {
                        break;
                    }
                }
            }
        }
        Ok(())
    });
    out.fault_fired = backend.lock().fault_fired;
    backend.set_fault(None);
    let _ = catch(move || drop(db));
    match res {
        Ok(r) => r.map(|()| out),
        Err(p) => Err(crate::driver::panic_failure(p, &format!("cursor under a storage fault {sc:?}"))),
    }
}

pub struct GridStats {
    pub scenarios: u64,
    pub fault_fired: u64,
    pub with_error_returned: u64,
    pub ok_after_error: u64,
}

/// enumerated grid: reader kind x direction x page size x cache size x warm pattern x fault index
pub fn run_grid(seed: u64, thorough: bool, threads: usize) -> (GridStats, Vec<Failure>) {
    let mut scs = vec![];
    let ks: Vec<u64> = if thorough { (0..16).collect() } else { vec![0, 1, 2, 3, 5, 8] };
    for reader in 0..3u8 {
        for backward in [false, true] {
            for (page, rows) in [(512usize, 420u64), (1024, 700)] {
                for cache in [0usize, 8 * page, 64 * 1024, 1 << 20] {
                    for warm_every in [0u64, 2, 5, 17] {
                        for k in &ks {
                            for start in [rows / 3, 7] {
                                scs.push(Sc { seed, page, cache, rows, reader, backward, k: *k, start: if backward { rows - start } else { start }, warm_every });
                            }
                        }
                    }
                }
            }
        }
    }
    let next = std::sync::atomic::AtomicUsize::new(0);
    let stats = std::sync::Mutex::new(GridStats { scenarios: 0, fault_fired: 0, with_error_returned: 0, ok_after_error: 0 });
    let fails = std::sync::Mutex::new(Vec::<Failure>::new());
    std::thread::scope(|s| {
        for _ in 0..threads {
            s.spawn(|| {
                loop {
                    let i = next.fetch_add(1, std::sync::atomic::Ordering::SeqCst);
                    if i >= scs.len() || !fails.lock().unwrap().is_empty() {
                        break;
                    }
                    match run(scs[i]) {
                        Ok(o) => {
                            let mut g = stats.lock().unwrap();
                            g.scenarios += 1;
                            g.fault_fired += u64::from(o.fault_fired);
                            g.with_error_returned += u64::from(o.errors_seen > 0);
                            g.ok_after_error += u64::from(o.ok_after_error);
                        }
                        Err(f) => fails.lock().unwrap().push(f),
                    }
                }
            });
        }
    });
    (stats.into_inner().unwrap(), fails.into_inner().unwrap())
}
