//! C17, "any pair of stored and requested types": an enumerated grid. A table (or multimap) is
//! created with one (key type, value type) and one row, committed, and then opened with every
//! other definition of the menu -- as a table and as a multimap, in a write and in a read
//! transaction, before and after a reopen. The expected outcome is computed from hand-written
//! type descriptors (name, built-in or user-defined, fixed width), not from redb's `type_name()`:
//!   kind differs                      -> TableIsMultimap / TableIsNotMultimap
//!   key or value type differs         -> TableTypeMismatch
//!   same type identity, width differs -> TypeDefinitionChanged
//!   identical                         -> opens and reads back the stored row
//! and after every refused open the stored row must still read back unchanged.

use crate::backend::RecBackend;
use crate::driver::{Failure, catch};
use redb::{Database, Key, MultimapTableDefinition, ReadableDatabase, ReadableTable, ReadableTableMetadata, TableDefinition, TableError, TypeName, Value};
use std::cmp::Ordering;

#[derive(Clone, Copy, PartialEq, Eq, Debug)]
pub struct Desc {
    /// identity of the type as the documentation describes it: spelled name + who defines it
    pub name: &'static str,
    pub user: bool,
    pub width: Option<usize>,
}

/// user-defined type: name chosen by N, fixed width W (0 = variable)
#[derive(Debug)]
pub struct Cust<const W: usize, const N: u8>;

impl<const W: usize, const N: u8> Value for Cust<W, N> {
    type SelfType<'a> = Vec<u8>;
    type AsBytes<'a> = Vec<u8>;
    fn fixed_width() -> Option<usize> {
        if W == 0 { None } else { Some(W) }
    }
    fn from_bytes<'a>(data: &'a [u8]) -> Vec<u8>
    where
        Self: 'a,
    {
        data.to_vec()
    }
    fn as_bytes<'a, 'b: 'a>(value: &'a Vec<u8>) -> Vec<u8>
    where
        Self: 'b,
    {
        value.clone()
    }
    fn type_name() -> TypeName {
        TypeName::new(match N {
            0 => "verif::Cust",
            1 => "u32",
            _ => "&str",
        })
    }
}

impl<const W: usize, const N: u8> Key for Cust<W, N> {
    fn compare(a: &[u8], b: &[u8]) -> Ordering {
        a.cmp(b)
    }
}

type OpenFn = Box<dyn Fn(&Database, &str, bool) -> Result<bool, TableError> + Send + Sync>;

pub struct Case {
    pub label: String,
    pub multi: bool,
    pub k: Desc,
    pub v: Desc,
    /// create the table with one row and commit
    pub create: Box<dyn Fn(&Database, &str) -> Result<(), String> + Send + Sync>,
    /// open with this definition (write txn if the flag is set, else read txn); Ok(row_matches)
    pub open: OpenFn,
}

macro_rules! tcase {
    ($out:ident, $K:ty, $kd:expr, $ke:expr, $V:ty, $vd:expr, $ve:expr) => {
        $out.push(Case {
            label: format!("Table<{}, {}>", stringify!($K), stringify!($V)),
            multi: false,
            k: $kd,
            v: $vd,
            create: Box::new(|db: &Database, name: &str| {
                let def: TableDefinition<$K, $V> = TableDefinition::new(name);
                let w = db.begin_write().map_err(|e| format!("{e:?}"))?;
                {
                    let mut t = w.open_table(def).map_err(|e| format!("{e:?}"))?;
                    t.insert($ke, $ve).map_err(|e| format!("{e:?}"))?;
                }
                w.commit().map_err(|e| format!("{e:?}"))
            }),
            open: Box::new(|db: &Database, name: &str, write: bool| {
                let def: TableDefinition<$K, $V> = TableDefinition::new(name);
                if write {
                    let w = db.begin_write().map_err(|e| TableError::Storage(redb::StorageError::Corrupted(format!("{e:?}"))))?;
                    let r = {
                        let t = w.open_table(def)?;
                        let g = t.get($ke)?;
                        let ok = t.len()? == 1 && g.is_some_and(|g| format!("{:?}", g.value()) == format!("{:?}", $ve));
                        ok
                    };
                    w.commit().map_err(|e| TableError::Storage(redb::StorageError::Corrupted(format!("{e:?}"))))?;
                    Ok(r)
                } else {
                    let rt = db.begin_read().map_err(|e| TableError::Storage(redb::StorageError::Corrupted(format!("{e:?}"))))?;
                    let t = rt.open_table(def)?;
                    let g = t.get($ke)?;
                    Ok(t.len()? == 1 && g.is_some_and(|g| format!("{:?}", g.value()) == format!("{:?}", $ve)))
                }
            }),
        });
    };
}

macro_rules! mcase {
    ($out:ident, $K:ty, $kd:expr, $ke:expr, $V:ty, $vd:expr, $ve:expr) => {
        $out.push(Case {
            label: format!("MultimapTable<{}, {}>", stringify!($K), stringify!($V)),
            multi: true,
            k: $kd,
            v: $vd,
            create: Box::new(|db: &Database, name: &str| {
                let def: MultimapTableDefinition<$K, $V> = MultimapTableDefinition::new(name);
                let w = db.begin_write().map_err(|e| format!("{e:?}"))?;
                {
                    let mut t = w.open_multimap_table(def).map_err(|e| format!("{e:?}"))?;
                    t.insert($ke, $ve).map_err(|e| format!("{e:?}"))?;
                }
                w.commit().map_err(|e| format!("{e:?}"))
            }),
            open: Box::new(|db: &Database, name: &str, write: bool| {
                use redb::ReadableMultimapTable;
                let def: MultimapTableDefinition<$K, $V> = MultimapTableDefinition::new(name);
                let se = |e: String| TableError::Storage(redb::StorageError::Corrupted(e));
                if write {
                    let w = db.begin_write().map_err(|e| se(format!("{e:?}")))?;
                    let r = {
                        let t = w.open_multimap_table(def)?;
                        let mut n = 0;
                        let mut ok = true;
                        for v in t.get($ke)? {
                            let v = v?;
                            n += 1;
                            ok &= format!("{:?}", v.value()) == format!("{:?}", $ve);
                        }
                        ok && n == 1 && t.len()? == 1
                    };
                    w.commit().map_err(|e| se(format!("{e:?}")))?;
                    Ok(r)
                } else {
                    let rt = db.begin_read().map_err(|e| se(format!("{e:?}")))?;
                    let t = rt.open_multimap_table(def)?;
                    let mut n = 0;
                    let mut ok = true;
                    for v in t.get($ke)? {
                        let v = v?;
                        n += 1;
                        ok &= format!("{:?}", v.value()) == format!("{:?}", $ve);
                    }
                    Ok(ok && n == 1 && t.len()? == 1)
                }
            }),
        });
    };
}

const fn b(name: &'static str, width: Option<usize>) -> Desc {
    Desc { name, user: false, width }
}
const fn u(name: &'static str, width: Option<usize>) -> Desc {
    Desc { name, user: true, width }
}

/// every type of the menu in key position (value fixed to u64) and in value position (key fixed
/// to u64), for tables and multimaps
pub fn menu() -> Vec<Case> {
    let mut out: Vec<Case> = vec![];
    let u64d = b("u64", Some(8));
    macro_rules! both_positions {
        ($T:ty, $d:expr, $e:expr) => {
            tcase!(out, $T, $d, $e, u64, u64d, 5u64);
            tcase!(out, u64, u64d, 5u64, $T, $d, $e);
            mcase!(out, $T, $d, $e, u64, u64d, 5u64);
            mcase!(out, u64, u64d, 5u64, $T, $d, $e);
        };
    }
    both_positions!(u32, b("u32", Some(4)), 7u32);
    both_positions!(i64, b("i64", Some(8)), -7i64);
    both_positions!(u128, b("u128", Some(16)), 7u128);
    both_positions!(&str, b("&str", None), "k");
    both_positions!(&[u8], b("&[u8]", None), b"k".as_slice());
    both_positions!(String, b("String", None), "k".to_string());
    both_positions!((u32, &str), b("(u32,&str)", None), (7u32, "k"));
    both_positions!((u32, u64), b("(u32,u64)", Some(12)), (7u32, 9u64));
    both_positions!([u8; 4], b("[u8;4]", Some(4)), [1u8, 2, 3, 4]);
    both_positions!([u8; 8], b("[u8;8]", Some(8)), [1u8, 2, 3, 4, 5, 6, 7, 8]);
    both_positions!(bool, b("bool", Some(1)), true);
    both_positions!(char, b("char", Some(3)), 'x');
    both_positions!(Option<u32>, b("Option<u32>", Some(5)), Some(7u32));
    both_positions!(Cust<4, 0>, u("verif::Cust", Some(4)), vec![1u8, 2, 3, 4]);
    both_positions!(Cust<8, 0>, u("verif::Cust", Some(8)), vec![1u8, 2, 3, 4, 5, 6, 7, 8]);
    both_positions!(Cust<0, 0>, u("verif::Cust", None), vec![1u8, 2, 3]);
    both_positions!(Cust<4, 1>, u("u32", Some(4)), vec![7u8, 0, 0, 0]);
    both_positions!(Cust<0, 2>, u("&str", None), vec![b'k']);
    // value-only types (not keys)
    tcase!(out, u64, u64d, 5u64, (), b("()", Some(0)), ());
    tcase!(out, u64, u64d, 5u64, Vec<u64>, b("Vec<u64>", None), vec![1u64, 2]);
    tcase!(out, u64, u64d, 5u64, f64, b("f64", Some(8)), 1.5f64);
    tcase!(out, u64, u64d, 5u64, Option<&str>, b("Option<&str>", None), Some("v"));
    out
}

pub fn expected(stored: &Case, want: &Case) -> Option<&'static str> {
    if stored.multi != want.multi {
        return Some(if stored.multi { "TableIsMultimap" } else { "TableIsNotMultimap" });
    }
    let same_id = |a: &Desc, b: &Desc| a.name == b.name && a.user == b.user;
    if !same_id(&stored.k, &want.k) || !same_id(&stored.v, &want.v) {
        return Some("TableTypeMismatch");
    }
    if stored.k.width != want.k.width || stored.v.width != want.v.width {
        return Some("TypeDefinitionChanged");
    }
    None
}

fn kind(e: &TableError) -> String {
    match e {
        TableError::TableTypeMismatch { .. } => "TableTypeMismatch".into(),
        TableError::TableIsMultimap(_) => "TableIsMultimap".into(),
        TableError::TableIsNotMultimap(_) => "TableIsNotMultimap".into(),
        TableError::TypeDefinitionChanged { .. } => "TypeDefinitionChanged".into(),
        e => format!("{e:?}"),
    }
}

pub struct GridStats {
    pub stored_definitions: u64,
    pub pairs: u64,
    pub opens: u64,
    pub by_outcome: std::collections::BTreeMap<String, u64>,
}

/// run every (stored, requested) pair; `threads` workers split the stored definitions
pub fn run_grid(threads: usize) -> (GridStats, Vec<Failure>) {
    let cases = menu();
    let n = cases.len();
    let next = std::sync::atomic::AtomicUsize::new(0);
    let stats = std::sync::Mutex::new(GridStats { stored_definitions: 0, pairs: 0, opens: 0, by_outcome: Default::default() });
    let fails = std::sync::Mutex::new(Vec::<Failure>::new());
    std::thread::scope(|s| {
        for _ in 0..threads {
            s.spawn(|| {
                loop {
                    let i = next.fetch_add(1, std::sync::atomic::Ordering::SeqCst);
                    if i >= n || !fails.lock().unwrap().is_empty() {
                        break;
                    }
                    let r = catch(|| one_stored(&cases, i));
                    match r {
                        Ok(Ok(local)) => {
                            let mut g = stats.lock().unwrap();
                            g.stored_definitions += 1;
                            g.pairs += local.pairs;
                            g.opens += local.opens;
                            for (k, v) in local.by_outcome {
                                *g.by_outcome.entry(k).or_default() += v;
                            }
                        }
                        Ok(Err(f)) => fails.lock().unwrap().push(f),
                        Err(p) => fails.lock().unwrap().push(Failure::new(format!("panic:{}", crate::driver::normalize_sig(&p)), format!("type-pair grid, stored {}: panic: {p}", cases[i].label))),
                    }
                }
            });
        }
    });
    (stats.into_inner().unwrap(), fails.into_inner().unwrap())
}

fn one_stored(cases: &[Case], i: usize) -> Result<GridStats, Failure> {
    let stored = &cases[i];
    let mut st = GridStats { stored_definitions: 1, pairs: 0, opens: 0, by_outcome: Default::default() };
    let backend = RecBackend::new(false);
    let mut db = Database::builder().create_with_backend(backend.clone()).map_err(|e| Failure::new("create", format!("{e:?}")))?;
    (stored.create)(&db, "t").map_err(|e| Failure::new("type-grid-create", format!("creating {} failed: {e}", stored.label)))?;
    for phase in 0..2 {
        if phase == 1 {
            drop(db);
            db = Database::builder().create_with_backend(backend.reopen_handle()).map_err(|e| Failure::new("reopen", format!("{e:?}")))?;
        }
        for want in cases {
            st.pairs += 1;
            let exp = expected(stored, want);
            for write in [true, false] {
                st.opens += 1;
                let got = (want.open)(&db, "t", write);
                let what = format!("stored {} opened as {} in a {} transaction{}", stored.label, want.label, if write { "write" } else { "read" }, if phase == 1 { " after a reopen" } else { "" });
                match (exp, got) {
                    (None, Ok(true)) => *st.by_outcome.entry("opened, row read back".into()).or_default() += 1,
                    (None, Ok(false)) => return Err(Failure::new("type-grid-content", format!("{what}: the stored row did not read back"))),
                    (None, Err(e)) => return Err(Failure::new("type-grid-refused-same", format!("{what}: refused with {}", kind(&e)))),
                    (Some(k), Err(e)) => {
                        let g = kind(&e);
                        if g != k {
                            return Err(Failure::new("type-grid-variant", format!("{what}: refused with {g}, the corresponding error is {k}")));
                        }
                        *st.by_outcome.entry(format!("refused: {k}")).or_default() += 1;
                    }
                    (Some(k), Ok(_)) => return Err(Failure::new("type-grid-accepted", format!("{what}: the open succeeded (bytes reinterpreted), expected {k}"))),
                }
                // the stored row is unaffected by whatever the attempt did
                match (stored.open)(&db, "t", false) {
                    Ok(true) => {}
                    Ok(false) => return Err(Failure::new("type-grid-damaged", format!("{what}: afterwards the stored row no longer reads back with its own definition"))),
                    Err(e) => return Err(Failure::new("type-grid-damaged", format!("{what}: afterwards the table no longer opens with its own definition: {}", kind(&e)))),
                }
            }
        }
    }
    match db.check_integrity() {
        Ok(true) => {}
        r => return Err(Failure::new("type-grid-integrity", format!("stored {}: check_integrity() returned {r:?} after the grid", stored.label))),
    }
    Ok(st)
}
