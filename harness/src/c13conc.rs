//! C13, "refuses to run while read transactions or savepoints exist", for histories in which the
//! savepoint appears while `compact()` is already waiting: a `WriteTransaction` is not
//! lifetime-bound to the `Database`, so one thread may hold one while another thread calls
//! `compact(&mut self)`, which then blocks in `begin_write()`. The holder creates a savepoint
//! (ephemeral or persistent) and ends its transaction; the waiting `compact()` must refuse.
//!
//! Verdict from return values only: `compact()` returning `Ok(_)` although a savepoint existed
//! from before it could acquire the write lock until after it returned is a violation. Timing is
//! a scheduling hint only (how long the holder waits before creating the savepoint); if
//! `compact()` has not returned 20 s after the holder's transaction ended, the savepoint is
//! released so that a compaction stuck behind it can finish and report what it did.

use crate::backend::RecBackend;
use crate::c03::write_all;
use crate::driver::{Failure, catch};
use crate::genr::DbCfg;
use redb::{CompactionError, ReadableDatabase};
use std::sync::mpsc::channel;
use std::time::Duration;

#[derive(Clone, Copy, Debug)]
pub struct Sc {
    pub persistent: bool,
    pub holder_commits: bool,
    pub wait_ms: u64,
    pub rows_before: u64,
}

pub fn grid() -> Vec<Sc> {
    let mut v = vec![];
    for persistent in [false, true] {
        for holder_commits in [true, false] {
            // an aborted transaction leaves no persistent savepoint behind
            if persistent && !holder_commits {
                continue;
            }
            for wait_ms in [0, 5, 40] {
                for rows_before in [0, 3] {
                    v.push(Sc { persistent, holder_commits, wait_ms, rows_before });
                }
            }
        }
    }
    v
}

pub fn run(sc: Sc) -> Result<bool, Failure> {
    let fail = |sig: &str, m: String| Failure::new(sig, format!("compact() waiting behind a live write transaction, {sc:?}: {m}"));
    let cfg = DbCfg { page_size: 512, region_size: 65536, cache_size: 1 << 20 };
    let db = cfg.builder().create_with_backend(RecBackend::new(false)).map_err(|e| Failure::new("create", format!("{e:?}")))?;
    for k in 1..=sc.rows_before {
        let w = db.begin_write().map_err(|e| fail("harness", format!("{e:?}")))?;
        write_all(&w, k, k).map_err(|e| fail("harness", e))?;
        w.commit().map_err(|e| fail("harness", format!("{e:?}")))?;
    }
    let w = db.begin_write().map_err(|e| fail("harness", format!("{e:?}")))?;
    let (tx, rx) = channel();
    let (started_tx, started_rx) = channel();
    let t = std::thread::spawn(move || {
        let mut db = db;
        let _ = started_tx.send(());
        let r = catch(|| db.compact());
        let _ = tx.send(());
        (db, r)
    });
    // the compacting thread is running (it may or may not have reached begin_write yet)
    let _ = started_rx.recv_timeout(Duration::from_secs(20));
    std::thread::sleep(Duration::from_millis(sc.wait_ms));
    // the holder creates its savepoint, then ends the transaction
    let mut eph = None;
    if sc.persistent {
        w.persistent_savepoint().map_err(|e| fail("harness", format!("persistent_savepoint: {e:?}")))?;
    } else {
        eph = Some(w.ephemeral_savepoint().map_err(|e| fail("harness", format!("ephemeral_savepoint: {e:?}")))?);
    }
    write_all(&w, 100, 100).map_err(|e| fail("harness", e))?;
    if sc.holder_commits {
        w.commit().map_err(|e| fail("harness", format!("commit: {e:?}")))?;
    } else {
        w.abort().map_err(|e| fail("harness", format!("abort: {e:?}")))?;
    }
    let returned_in_time = rx.recv_timeout(Duration::from_secs(20)).is_ok();
    // release the savepoint only now (after compact() returned, or to unblock a stuck one)
    drop(eph);
    let (mut db, r) = t.join().map_err(|_| fail("harness", "compact thread died".into()))?;
    let r = match r {
        Ok(r) => r,
        Err(p) => return Err(fail("compact-panic", format!("compact() panicked: {p}"))),
    };
    match r {
        // any refusal will do: the property says "refuses to run". TransactionInProgress is what a
        // check answers that runs between the two steps of an ephemeral savepoint's registration
        // (its read reference is registered before the savepoint itself is listed)
        Err(CompactionError::EphemeralSavepointExists) | Err(CompactionError::PersistentSavepointExists) | Err(CompactionError::TransactionInProgress) => {}
        Err(CompactionError::Storage(e)) => return Err(fail("compact-storage-error", format!("compact() failed: {e:?}"))),
        Err(e) => return Err(fail("compact-refusal-variant", format!("compact() refused with {e:?}, which does not name the savepoint that exists"))),
        Ok(b) => {
            return Err(fail(
                "compact-ran-with-savepoint",
                format!("compact() returned Ok({b}) although a savepoint existed from before it could take the write lock until {} (it ran while a savepoint existed)", if returned_in_time { "after it returned" } else { "20 s after the holder's transaction ended, when the savepoint was released to let it finish" }),
            ));
        }
    }
    // contents: the holder's transaction took effect (or not), nothing else changed
    let expect = if sc.holder_commits { Some((100, 100)) } else if sc.rows_before > 0 { Some((sc.rows_before, sc.rows_before)) } else { None };
    let rt = db.begin_read().map_err(|e| fail("harness", format!("{e:?}")))?;
    let got = crate::c03::observe_read(&rt).map_err(|e| fail("compact-content", e))?;
    drop(rt);
    if got != (expect, expect, true) {
        return Err(fail("compact-content", format!("contents after the refused compaction: {got:?}, expected commit {expect:?}")));
    }
    if sc.persistent {
        let w = db.begin_write().map_err(|e| fail("harness", format!("{e:?}")))?;
        let ids: Vec<u64> = w.list_persistent_savepoints().map_err(|e| fail("harness", format!("{e:?}")))?.collect();
        for id in ids {
            w.delete_persistent_savepoint(id).map_err(|e| fail("harness", format!("{e:?}")))?;
        }
        w.commit().map_err(|e| fail("harness", format!("{e:?}")))?;
    }
    // with nothing alive compaction is allowed again and keeps the contents
    match catch(|| db.compact()) {
        Ok(Ok(_)) => {}
        Ok(Err(e)) => return Err(fail("compact-refused-without-holders", format!("with no savepoint or reader left compact() returned {e:?}"))),
        Err(p) => return Err(fail("compact-panic", format!("compact() panicked: {p}"))),
    }
    let rt = db.begin_read().map_err(|e| fail("harness", format!("{e:?}")))?;
    let got = crate::c03::observe_read(&rt).map_err(|e| fail("compact-content", e))?;
    drop(rt);
    if got != (expect, expect, true) {
        return Err(fail("compact-content", format!("contents after the final compaction: {got:?}, expected commit {expect:?}")));
    }
    match db.check_integrity() {
        Ok(true) => {}
        r => return Err(fail("integrity-false", format!("check_integrity() returned {r:?}"))),
    }
    Ok(returned_in_time)
}

pub fn run_grid() -> (u64, u64, Vec<Failure>) {
    let scs = grid();
    let fails = std::sync::Mutex::new(vec![]);
    let counts = std::sync::Mutex::new((0u64, 0u64));
    std::thread::scope(|s| {
        for sc in &scs {
            let (counts, fails) = (&counts, &fails);
            s.spawn(move || match catch(|| run(*sc)) {
                Ok(Ok(in_time)) => {
                    let mut g = counts.lock().unwrap();
                    g.0 += 1;
                    g.1 += u64::from(in_time);
                }
                Ok(Err(f)) => fails.lock().unwrap().push(f),
                Err(p) => fails.lock().unwrap().push(crate::driver::panic_failure(p, &format!("compact() behind a writer {sc:?}"))),
            });
        }
    });
    let g = counts.lock().unwrap();
    (g.0, g.1, fails.into_inner().unwrap())
}
