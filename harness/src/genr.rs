//! Configuration space and boundary-biased generators shared by all engines.

use crate::mv::{MV, Ty};
use crate::tape::{Rec, idx8};

#[derive(Clone, Debug, PartialEq, Eq)]
pub struct DbCfg {
    pub page_size: usize,
    pub region_size: u64,
    pub cache_size: usize,
}

pub const PAGE_SIZES: [usize; 6] = [512, 1024, 2048, 4096, 8192, 16384];

impl DbCfg {
    /// decode from the first three configuration bytes
    pub fn decode(b0: u8, b1: u8, b2: u8) -> DbCfg {
        let page_size = PAGE_SIZES[idx8(b0, PAGE_SIZES.len())];
        // regions: at least 64 pages, 64KiB .. 4MiB
        let min_region = (page_size as u64 * 64).max(64 * 1024);
        let mut choices = vec![];
        let mut r = min_region;
        while r <= 4 * 1024 * 1024 {
            choices.push(r);
            r *= 2;
        }
        let region_size = choices[idx8(b1, choices.len())];
        let caches = [
            0usize,
            page_size,
            8 * page_size,
            64 * 1024,
            1024 * 1024,
            1024 * 1024 * 1024,
        ];
        let cache_size = caches[idx8(b2, caches.len())];
        DbCfg {
            page_size,
            region_size,
            cache_size,
        }
    }

    pub fn builder(&self) -> redb::Builder {
        let mut b = redb::Builder::new();
        b.verif_set_page_size(self.page_size);
        if self.region_size < (1 << 32) {
            // 1 << 32 stands for "default geometry" (C19)
            b.verif_set_region_size(self.region_size);
        }
        b.set_cache_size(self.cache_size);
        b
    }

    pub fn max_value_len(&self) -> usize {
        (self.region_size / 4).min(1 << 20) as usize
    }

    pub fn json(&self) -> serde_json::Value {
        serde_json::json!({"page_size": self.page_size, "region_size": self.region_size, "cache_size": self.cache_size})
    }
}

/// deterministic content: `len` bytes derived from `tag`
pub fn fill(tag: u64, len: usize) -> Vec<u8> {
    let mut v = Vec::with_capacity(len);
    let mut x = tag.wrapping_mul(0x9E3779B97F4A7C15) ^ 0xD1B54A32D192ED03;
    while v.len() < len {
        x ^= x << 13;
        x ^= x >> 7;
        x ^= x << 17;
        let b = x.to_le_bytes();
        let n = (len - v.len()).min(8);
        v.extend_from_slice(&b[..n]);
    }
    v
}

/// boundary-biased length relative to the page size. `cls` picks the class, `d` a small delta.
pub fn value_len(cls: u8, d: u8, page: usize, maxlen: usize) -> usize {
    let d = (d % 17) as isize - 8; // -8..=8
    let p = page as isize;
    // weights: mostly small values, regular visits to every threshold
    const W: [u32; 12] = [6, 6, 30, 14, 8, 8, 8, 6, 5, 4, 3, 2];
    let total: u32 = W.iter().sum();
    let mut x = u32::from(cls) * total >> 8;
    let mut k = 0;
    for (i, w) in W.iter().enumerate() {
        if x < *w {
            k = i;
            break;
        }
        x -= *w;
    }
    let len = match k {
        0 => 0,
        1 => 1,
        2 => 2 + (d + 8) as isize * 2, // 2..34
        3 => p / 8 + d,
        4 => p / 4 + d,
        5 => p / 3 + d,
        6 => p / 2 + d,
        7 => p - 64 + d * 4,
        8 => p - 16 + d,
        9 => p + d,
        10 => 2 * p + d,
        _ => 5 * p + d,
    };
    (len.max(0) as usize).min(maxlen)
}

// multi-byte characters come in groups that share their leading bytes and first differ in a
// middle continuation byte (U+20AC/U+202C: E2 82 AC / E2 80 AC; U+10348/U+10308/U+20348)
const STR_ATOMS: [&str; 12] = ["", "a", "b", "ab", "\u{e9}", "\u{20ac}", "\u{202c}", "\u{10348}", "\u{10308}", "\u{20348}", "\u{e8}", "zz"];
const STR_PREFIX: [&str; 6] = ["", "a", "ab", "key/", "key/\u{e9}", "\u{10348}"];
const BYTE_ATOMS: [u8; 6] = [0x00, 0x01, 0x7f, 0x80, 0xff, b'k'];

fn str_of(idx: usize, pad_to: usize) -> String {
    // injective in idx: prefix choice + base-7 digits over non-empty atoms + terminator digit
    if idx == 0 {
        return String::new();
    }
    let mut s = String::new();
    let i = idx - 1;
    s.push_str(STR_PREFIX[i % STR_PREFIX.len()]);
    s.push('|'); // separates prefix from digits, keeps the map injective
    let mut q = i / STR_PREFIX.len();
    loop {
        s.push_str(STR_ATOMS[1 + q % 11]);
        s.push('.');
        q /= 11;
        if q == 0 {
            break;
        }
    }
    while s.len() < pad_to {
        s.push('p');
    }
    s
}

fn bytes_of(idx: usize, pad_to: usize) -> Vec<u8> {
    if idx == 0 {
        return vec![];
    }
    let mut v = vec![];
    let i = idx - 1;
    // shared prefix groups
    for _ in 0..(i % 4) {
        v.push(0xff);
    }
    v.push(0x02);
    let mut q = i / 4;
    loop {
        v.push(BYTE_ATOMS[q % 6]);
        v.push(0x03);
        q /= 6;
        if q == 0 {
            break;
        }
    }
    while v.len() < pad_to {
        v.push(0x00);
    }
    v
}

fn u64_of(idx: usize) -> u64 {
    let i = idx as u64;
    match i % 4 {
        0 => i / 4,
        1 => (i / 4) << 32 | 1,
        2 => u64::MAX - i / 4,
        _ => (i / 4).wrapping_mul(0x0101_0101_0101_0101) | 0x8000_0000_0000_0000,
    }
}

/// key number `idx` of the universe of family `ty`. `padcls` selects an occasional long key
/// (relative to the page size) for the variable-width families.
pub fn key_of(ty: Ty, idx: usize, padcls: u8, page: usize) -> MV {
    // keys are padded deterministically per idx so that the same idx always gives the same key
    let _ = padcls;
    let hsh = idx.wrapping_mul(2654435761) >> 7;
    let pad = match hsh % 16 {
        0 => page / 8,
        1 => page / 3,
        2 => page / 2 + 7,
        3 if (hsh >> 4) % 4 == 0 => page + 11,
        _ => 0,
    };
    match ty {
        Ty::Unit => MV::Unit,
        Ty::U64 => MV::U64(u64_of(idx)),
        Ty::Str => MV::Str(str_of(idx, pad)),
        Ty::Bytes => MV::Bytes(bytes_of(idx, pad)),
        Ty::TupU32Str => {
            let a = [0u32, 1, 255, 256, u32::MAX, 0x8000_0000, 65536][idx % 7];
            MV::TupU32Str(a, str_of(idx / 7, pad.min(page / 3)))
        }
        Ty::ArrStr2 => MV::ArrStr2([str_of(idx % 9, 0), str_of(idx / 9, pad.min(page / 3))]),
    }
}

/// pad choice must not depend on padcls for determinism of the universe; keep the signature but
/// make the universe a pure function of idx
pub fn key(ty: Ty, idx: usize, page: usize) -> MV {
    key_of(ty, idx, 0, page)
}

/// a value of family `ty` with content derived from `tag`
pub fn val_of(ty: Ty, tag: u64, cls: u8, d: u8, page: usize, maxlen: usize) -> MV {
    match ty {
        Ty::Unit => MV::Unit,
        Ty::U64 => MV::U64(tag.wrapping_mul(0x9E3779B97F4A7C15)),
        Ty::Bytes => MV::Bytes(fill(tag, value_len(cls, d, page, maxlen))),
        Ty::Str => {
            let len = value_len(cls, d, page, maxlen);
            let raw = fill(tag, len);
            MV::Str(raw.iter().map(|b| (b'a' + b % 26) as char).collect())
        }
        Ty::TupU32Str => MV::TupU32Str(tag as u32, format!("v{tag}")),
        Ty::ArrStr2 => MV::ArrStr2([format!("{tag}"), String::new()]),
    }
}

pub fn rec_key(r: &mut Rec, ty: Ty, universe: usize, page: usize) -> MV {
    let idx = r.idx16(universe);
    key(ty, idx, page)
}
