//! C18: gap cursors agree with a sorted-map cursor (engine `tableops`)

use crate::backend::RecBackend;
use crate::driver::{CaseOut, Check, Failure, Plan, Tier};
use crate::genr::{self, DbCfg};
use crate::mv::*;
use crate::tableops::{R, Stop, bound_ref, full_compare, stop_to_failure};
use crate::tape::{Fnv, Rec, Tape};
use crate::{io, sensure, sfail};
use redb::{ReadableDatabase, ReadableTable, ReadableTableMetadata, StorageError, TableDefinition};
use serde_json::{Value, json};
use std::collections::BTreeMap;
use std::ops::Bound;

pub struct C18;

#[derive(Clone, Debug)]
pub enum KeyChoice {
    Universe(usize),
    /// a key computed to lie strictly inside the gap (if the gap has room)
    Fit(u16),
    EqualPrev,
    EqualNext,
}

#[derive(Clone, Debug)]
pub enum COp {
    Seek { upper: bool, bound: Bound<usize> },
    PeekNext,
    PeekPrev,
    Next(u8),
    Prev(u8),
    InsertBefore { key: KeyChoice, cls: u8, d: u8 },
    InsertAfter { key: KeyChoice, cls: u8, d: u8 },
    RunBefore { n: u8, cls: u8 },
    RunAfter { n: u8, cls: u8 },
    RemoveNext,
    RemovePrev,
    Close,
    DropCursor,
    Commit,
    CommitReopen,
    /// walk a read-only cursor (on the Table inside the write transaction, or on a ReadOnlyTable)
    ReadCursor { upper: bool, bound: Bound<usize>, pat: u16, steps: u8, committed: bool },
}

pub struct Case {
    pub cfg: DbCfg,
    pub kty: Ty,
    pub universe: usize,
    pub prefill: usize,
    pub prefill_cls: u8,
    pub ops: Vec<COp>,
}

fn dec_bound(r: &mut Rec, universe: usize) -> Bound<usize> {
    let k = r.u8() % 3;
    let i = r.idx16(universe);
    match k {
        0 => Bound::Unbounded,
        1 => Bound::Included(i),
        _ => Bound::Excluded(i),
    }
}

fn dec_key(r: &mut Rec, universe: usize) -> KeyChoice {
    match r.u8() % 8 {
        0..=2 => KeyChoice::Universe(r.idx16(universe)),
        3..=5 => KeyChoice::Fit(r.u16()),
        6 => KeyChoice::EqualPrev,
        _ => KeyChoice::EqualNext,
    }
}

pub fn decode(tape: &Tape) -> Case {
    let c = &tape.cfg;
    let cfg = DbCfg::decode(c[0], c[1], c[2]);
    let kty = if c[3] % 2 == 0 { Ty::U64 } else { Ty::Str };
    let universe = [48usize, 200, 12, 600][(c[4] % 4) as usize];
    let prefill = [0usize, 5, 40, 200, 700][(c[5] % 5) as usize];
    let mut ops = vec![];
    const W: [u32; 16] = [14, 8, 8, 12, 12, 30, 30, 8, 8, 12, 12, 4, 2, 4, 2, 8];
    for rec in &tape.recs {
        let mut r = Rec::new(rec);
        let op = match r.weighted(&W) {
            0 => COp::Seek { upper: r.bool(), bound: dec_bound(&mut r, universe) },
            1 => COp::PeekNext,
            2 => COp::PeekPrev,
            3 => COp::Next(1 + r.u8() % 12),
            4 => COp::Prev(1 + r.u8() % 12),
            5 => COp::InsertBefore { key: dec_key(&mut r, universe), cls: r.u8(), d: r.u8() },
            6 => COp::InsertAfter { key: dec_key(&mut r, universe), cls: r.u8(), d: r.u8() },
            7 => COp::RunBefore { n: 2 + r.u8() % 60, cls: r.u8() },
            8 => COp::RunAfter { n: 2 + r.u8() % 60, cls: r.u8() },
            9 => COp::RemoveNext,
            10 => COp::RemovePrev,
            11 => COp::Close,
            12 => COp::DropCursor,
            13 => COp::Commit,
            14 => COp::CommitReopen,
            _ => COp::ReadCursor { upper: r.bool(), bound: dec_bound(&mut r, universe), pat: r.u16(), steps: 1 + r.u8() % 24, committed: r.bool() },
        };
        ops.push(op);
    }
    Case { cfg, kty, universe, prefill, prefill_cls: c[6], ops }
}

/// sorted-vector model with a gap index
struct GapModel {
    v: Vec<(MV, MV)>,
    g: usize,
}

fn partition_lower(v: &[(MV, MV)], b: &Bound<MV>) -> usize {
    match b {
        Bound::Unbounded => 0,
        Bound::Included(x) => v.partition_point(|(k, _)| k < x),
        Bound::Excluded(x) => v.partition_point(|(k, _)| k <= x),
    }
}

fn partition_upper(v: &[(MV, MV)], b: &Bound<MV>) -> usize {
    match b {
        Bound::Unbounded => v.len(),
        Bound::Included(x) => v.partition_point(|(k, _)| k <= x),
        Bound::Excluded(x) => v.partition_point(|(k, _)| k < x),
    }
}

/// a key strictly between the gap's neighbours, if there is room
fn fit_key(kty: Ty, prev: Option<&MV>, next: Option<&MV>, salt: u16, counter: &mut u64) -> Option<MV> {
    *counter += 1;
    match kty {
        Ty::U64 => {
            let lo = match prev {
                Some(MV::U64(p)) => p.checked_add(1)?,
                _ => 0,
            };
            let hi = match next {
                Some(MV::U64(n)) => n.checked_sub(1)?,
                _ => u64::MAX,
            };
            if lo > hi {
                return None;
            }
            let span = hi - lo;
            Some(MV::U64(lo + if span == 0 { 0 } else { u64::from(salt) % span.min(1 << 20) }))
        }
        _ => {
            // prev + suffix sorts above prev; must stay below next
            let base = match prev {
                Some(MV::Str(p)) => p.clone(),
                _ => String::new(),
            };
            let cand = format!("{base}!{:05}", (*counter % 90000) + u64::from(salt % 7));
            let ok_hi = match next {
                Some(MV::Str(n)) => cand.as_str() < n.as_str(),
                _ => true,
            };
            let ok_lo = match prev {
                Some(MV::Str(p)) => cand.as_str() > p.as_str(),
                _ => true,
            };
            (ok_hi && ok_lo).then_some(MV::Str(cand))
        }
    }
}

#[derive(Default)]
struct Stats {
    max_height: u32,
    run_spliced_mid_tall: bool,
    crossed_after_splice: bool,
    unordered_checked: u32,
    inserts: u32,
    removes: u32,
    moves: u32,
    read_cursor_steps: u32,
    longest_run: u32,
}

macro_rules! cmp_entry {
    ($KF:ty, $VF:ty, $what:expr, $got:expr, $exp:expr) => {{
        let got = $got.map(|(k, v)| (<$KF as ValFam>::from(k.value()), <$VF as ValFam>::from(v.value())));
        let exp: Option<(MV, MV)> = $exp;
        sensure!(got == exp, "cursor-entry", "{}: cursor returned {:?}, sorted-map cursor says {:?}", $what, got, exp);
    }};
}

fn run_typed<KF: KeyFam>(case: &Case, out: &mut CaseOut) -> R {
    type VF = FBytes;
    let def: TableDefinition<KF::T, <VF as ValFam>::T> = TableDefinition::new("c");
    let backend = RecBackend::new(false);
    let mut db = match case.cfg.builder().create_with_backend(backend.clone()) {
        Ok(db) => db,
        Err(e) => sfail!("create", "create failed: {e:?}"),
    };
    let page = case.cfg.page_size;
    let maxlen = case.cfg.max_value_len();
    let mut committed: BTreeMap<MV, MV> = BTreeMap::new();
    let mut st = Stats::default();
    let mut fit_counter = 0u64;
    // prefill
    {
        let txn = match db.begin_write() {
            Ok(t) => t,
            Err(e) => sfail!("begin_write", "{e:?}"),
        };
        {
            let mut t = match txn.open_table(def) {
                Ok(t) => t,
                Err(e) => sfail!("open_table", "{e:?}"),
            };
            for i in 0..case.prefill {
                // every third universe key, so that gaps have room and universe keys hit and miss
                let k = genr::key(case.kty, (i * 3 + 1) % case.universe.max(1) + (i * 3 / case.universe.max(1)) * case.universe, page);
                let v = genr::val_of(Ty::Bytes, i as u64, case.prefill_cls.wrapping_add((i * 37) as u8), 3, page, maxlen.min(3 * page));
                io!(t.insert(KF::to(&k), VF::to(&v)));
                committed.insert(k, v);
            }
        }
        if let Err(e) = txn.commit() {
            sfail!("commit", "{e:?}");
        }
    }
    let mut i = 0usize;
    let ops = &case.ops;
    let mut tag = 1u64 << 32;
    while i < ops.len() {
        let txn = match db.begin_write() {
            Ok(t) => t,
            Err(e) => sfail!("begin_write", "{e:?}"),
        };
        let mut model: Vec<(MV, MV)> = committed.iter().map(|(k, v)| (k.clone(), v.clone())).collect();
        let mut end_txn: Option<COp> = None;
        {
            let mut t = match txn.open_table(def) {
                Ok(t) => t,
                Err(e) => sfail!("open_table", "{e:?}"),
            };
            'table: while i < ops.len() {
                // position a cursor (explicit Seek, or the start of the table)
                let (upper, bound_idx) = match &ops[i] {
                    COp::Seek { upper, bound } => {
                        i += 1;
                        (*upper, bound.clone())
                    }
                    COp::Commit | COp::CommitReopen => {
                        end_txn = Some(ops[i].clone());
                        i += 1;
                        break 'table;
                    }
                    COp::ReadCursor { upper, bound, pat, steps, committed: on_committed } => {
                        // read-only cursor over the table as it is now (uncommitted writes visible)
                        let b: Bound<MV> = map_bound(bound, case.kty, page);
                        if !*on_committed {
                            let c = if *upper { io!(t.upper_bound(bound_ref::<KF>(&b))) } else { io!(t.lower_bound(bound_ref::<KF>(&b))) };
                            let g = if *upper { partition_upper(&model, &b) } else { partition_lower(&model, &b) };
                            walk_read_cursor::<KF>(c, &model, g, *pat, *steps, &mut st)?;
                        }
                        i += 1;
                        continue 'table;
                    }
                    _ => (false, Bound::Unbounded),
                };
                let b: Bound<MV> = map_bound(&bound_idx, case.kty, page);
                let mut gm = GapModel { g: if upper { partition_upper(&model, &b) } else { partition_lower(&model, &b) }, v: std::mem::take(&mut model) };
                let mut cur = if upper { io!(t.upper_bound_mut(bound_ref::<KF>(&b))) } else { io!(t.lower_bound_mut(bound_ref::<KF>(&b))) };
                // the gap right after the seek
                cmp_entry!(KF, VF, format!("peek_next after seek({upper},{b:?})"), io!(cur.peek_next()), gm.v.get(gm.g).cloned());
                cmp_entry!(KF, VF, format!("peek_prev after seek({upper},{b:?})"), io!(cur.peek_prev()), gm.g.checked_sub(1).and_then(|j| gm.v.get(j)).cloned());
                let mut pending_run = 0u32;
                let mut spliced_here = false;
                let mut close_mode = 0u8; // 0 = close(), 1 = drop
                while i < ops.len() {
                    let op = &ops[i];
                    match op {
                        COp::Seek { .. } | COp::Commit | COp::CommitReopen | COp::ReadCursor { .. } => break,
                        COp::Close => {
                            i += 1;
                            break;
                        }
                        COp::DropCursor => {
                            close_mode = 1;
                            i += 1;
                            break;
                        }
                        COp::PeekNext => {
                            cmp_entry!(KF, VF, "peek_next", io!(cur.peek_next()), gm.v.get(gm.g).cloned());
                        }
                        COp::PeekPrev => {
                            cmp_entry!(KF, VF, "peek_prev", io!(cur.peek_prev()), gm.g.checked_sub(1).and_then(|j| gm.v.get(j)).cloned());
                        }
                        COp::Next(n) => {
                            for _ in 0..*n {
                                let exp = gm.v.get(gm.g).cloned();
                                cmp_entry!(KF, VF, "next", io!(cur.next()), exp.clone());
                                if exp.is_some() {
                                    gm.g += 1;
                                }
                                st.moves += 1;
                            }
                            if spliced_here {
                                st.crossed_after_splice = true;
                            }
                        }
                        COp::Prev(n) => {
                            for _ in 0..*n {
                                let exp = gm.g.checked_sub(1).and_then(|j| gm.v.get(j)).cloned();
                                cmp_entry!(KF, VF, "prev", io!(cur.prev()), exp.clone());
                                if exp.is_some() {
                                    gm.g -= 1;
                                }
                                st.moves += 1;
                            }
                            if spliced_here {
                                st.crossed_after_splice = true;
                            }
                        }
                        COp::InsertBefore { key, cls, d } | COp::InsertAfter { key, cls, d } => {
                            let before = matches!(op, COp::InsertBefore { .. });
                            let prev = gm.g.checked_sub(1).map(|j| gm.v[j].0.clone());
                            let next = gm.v.get(gm.g).map(|e| e.0.clone());
                            let k = match key {
                                KeyChoice::Universe(ix) => Some(genr::key(case.kty, *ix, page)),
                                KeyChoice::Fit(s) => fit_key(case.kty, prev.as_ref(), next.as_ref(), *s, &mut fit_counter),
                                KeyChoice::EqualPrev => prev.clone(),
                                KeyChoice::EqualNext => next.clone(),
                            };
                            if let Some(k) = k {
                                tag += 1;
                                let v = genr::val_of(Ty::Bytes, tag, *cls, *d, page, maxlen.min(3 * page));
                                let ok = prev.as_ref().is_none_or(|p| p < &k) && next.as_ref().is_none_or(|n| &k < n);
                                let res = if before { cur.insert_before(KF::to(&k), VF::to(&v)) } else { cur.insert_after(KF::to(&k), VF::to(&v)) };
                                match (res, ok) {
                                    (Ok(()), true) => {
                                        gm.v.insert(gm.g, (k, v));
                                        if before {
                                            gm.g += 1;
                                        }
                                        st.inserts += 1;
                                        pending_run += 1;
                                    }
                                    (Err(StorageError::UnorderedKey), false) => {
                                        st.unordered_checked += 1;
                                    }
                                    (Ok(()), false) => sfail!("cursor-insert-accepted", "insert_{}({k:?}) was accepted but the key does not sort strictly between the gap's neighbours {prev:?} and {next:?}", if before { "before" } else { "after" }),
                                    (Err(StorageError::UnorderedKey), true) => sfail!("cursor-insert-refused", "insert_{}({k:?}) was refused as unordered but {prev:?} < key < {next:?}", if before { "before" } else { "after" }),
                                    (Err(e), _) => return Err(Stop::Io(format!("{e:?}"))),
                                }
                            }
                        }
                        COp::RunBefore { n, cls } | COp::RunAfter { n, cls } => {
                            let before = matches!(op, COp::RunBefore { .. });
                            let mut done = 0u32;
                            for j in 0..*n {
                                let prev = gm.g.checked_sub(1).map(|j| gm.v[j].0.clone());
                                let next = gm.v.get(gm.g).map(|e| e.0.clone());
                                let Some(k) = fit_key(case.kty, prev.as_ref(), next.as_ref(), u16::from(j) * 3, &mut fit_counter) else { break };
                                tag += 1;
                                let v = genr::val_of(Ty::Bytes, tag, *cls, j, page, maxlen.min(2 * page));
                                let res = if before { cur.insert_before(KF::to(&k), VF::to(&v)) } else { cur.insert_after(KF::to(&k), VF::to(&v)) };
                                match res {
                                    Ok(()) => {
                                        gm.v.insert(gm.g, (k, v));
                                        if before {
                                            gm.g += 1;
                                        }
                                        done += 1;
                                    }
                                    Err(StorageError::UnorderedKey) => sfail!("cursor-insert-refused", "run insert of {k:?} was refused as unordered but {prev:?} < key < {next:?}"),
                                    Err(e) => return Err(Stop::Io(format!("{e:?}"))),
                                }
                            }
                            st.inserts += done;
                            pending_run += done;
                            st.longest_run = st.longest_run.max(pending_run);
                            let bytes: usize = gm.v[gm.g.saturating_sub(done as usize)..gm.g.min(gm.v.len())].iter().map(|e| e.1.byte_len()).sum();
                            if done >= 2 && bytes >= 2 * page && gm.g > done as usize && gm.g < gm.v.len() && st.max_height >= 2 {
                                st.run_spliced_mid_tall = true;
                                spliced_here = true;
                            }
                        }
                        COp::RemoveNext => {
                            let exp = if gm.g < gm.v.len() { Some(gm.v.remove(gm.g)) } else { None };
                            cmp_entry!(KF, VF, "remove_next", io!(cur.remove_next()), exp);
                            st.removes += 1;
                            pending_run = 0;
                        }
                        COp::RemovePrev => {
                            let exp = if gm.g > 0 {
                                gm.g -= 1;
                                Some(gm.v.remove(gm.g))
                            } else {
                                None
                            };
                            cmp_entry!(KF, VF, "remove_prev", io!(cur.remove_prev()), exp);
                            st.removes += 1;
                            pending_run = 0;
                        }
                    }
                    i += 1;
                }
                if close_mode == 0 {
                    io!(cur.close());
                } else {
                    drop(cur);
                }
                model = gm.v;
                // after close the table equals the sorted map with the same edits
                let as_map: BTreeMap<MV, MV> = model.iter().cloned().collect();
                sensure!(as_map.len() == model.len(), "harness-model", "model has duplicate keys");
                full_compare::<KF, VF, _>(&t, &as_map)?;
                st.max_height = st.max_height.max(io!(t.stats()).tree_height());
            }
        }
        let as_map: BTreeMap<MV, MV> = model.iter().cloned().collect();
        if let Err(e) = txn.commit() {
            sfail!("commit", "commit failed: {e:?}");
        }
        committed = as_map;
        if matches!(end_txn, Some(COp::CommitReopen)) {
            drop(db);
            db = match case.cfg.builder().create_with_backend(backend.reopen_handle()) {
                Ok(db) => db,
                Err(e) => sfail!("reopen", "reopen failed: {e:?}"),
            };
        }
        // committed view, plus read-only cursors on a ReadOnlyTable
        let rt = match db.begin_read() {
            Ok(t) => t,
            Err(e) => sfail!("begin_read", "{e:?}"),
        };
        let ro = match rt.open_table(def) {
            Ok(t) => t,
            Err(e) => sfail!("ro-open", "{e:?}"),
        };
        full_compare::<KF, VF, _>(&ro, &committed)?;
        let cm: Vec<(MV, MV)> = committed.iter().map(|(k, v)| (k.clone(), v.clone())).collect();
        for op in ops.iter().filter(|o| matches!(o, COp::ReadCursor { committed: true, .. })).take(3) {
            if let COp::ReadCursor { upper, bound, pat, steps, .. } = op {
                let b: Bound<MV> = map_bound(bound, case.kty, page);
                let c = if *upper { io!(ro.upper_bound(bound_ref::<KF>(&b))) } else { io!(ro.lower_bound(bound_ref::<KF>(&b))) };
                let g = if *upper { partition_upper(&cm, &b) } else { partition_lower(&cm, &b) };
                walk_read_cursor::<KF>(c, &cm, g, *pat, *steps, &mut st)?;
            }
        }
    }
    drop(db);
    let mut db = match case.cfg.builder().create_with_backend(backend.reopen_handle()) {
        Ok(db) => db,
        Err(e) => sfail!("reopen", "final reopen failed: {e:?}"),
    };
    match db.check_integrity() {
        Ok(true) => {}
        r => sfail!("final-check-integrity", "check_integrity() after the case returned {r:?}"),
    }
    drop(db);
    let v = backend.monitor_violations();
    sensure!(v.is_empty(), "backend-contract", "backend contract violated: {:?}", v);
    if st.run_spliced_mid_tall && st.crossed_after_splice {
        let mut h = Fnv::new();
        h.write_u64(u64::from(st.inserts));
        h.write_u64(u64::from(st.removes));
        h.write_u64(u64::from(st.moves));
        h.write_u64(committed.len() as u64);
        h.write_u64(page as u64);
        h.write_str(KF::NAME);
        for (k, _) in committed.iter().take(6) {
            k.hash_into(&mut h);
        }
        out.nontrivial.push(h.finish());
        out.class("nontrivial (buffered run >= 2 leaves spliced at an inner gap of a height>=2 tree, then crossed)");
    }
    out.class_n("unordered inserts refused (checked)", u64::from(st.unordered_checked));
    out.class_n("cursor inserts", u64::from(st.inserts));
    out.class_n("cursor removes", u64::from(st.removes));
    out.class_n("read-only cursor steps", u64::from(st.read_cursor_steps));
    if st.max_height >= 3 {
        out.class("height>=3");
    }
    if st.longest_run >= 50 {
        out.class("buffered run >= 50 inserts");
    }
    Ok(())
}

fn map_bound(b: &Bound<usize>, kty: Ty, page: usize) -> Bound<MV> {
    match b {
        Bound::Unbounded => Bound::Unbounded,
        Bound::Included(i) => Bound::Included(genr::key(kty, *i, page)),
        Bound::Excluded(i) => Bound::Excluded(genr::key(kty, *i, page)),
    }
}

fn walk_read_cursor<KF: KeyFam>(mut c: redb::Cursor<'_, KF::T, &'static [u8]>, v: &[(MV, MV)], mut g: usize, pat: u16, steps: u8, st: &mut Stats) -> R {
    type VF = FBytes;
    cmp_entry!(KF, VF, "read cursor peek_next after seek", io!(c.peek_next()), v.get(g).cloned());
    cmp_entry!(KF, VF, "read cursor peek_prev after seek", io!(c.peek_prev()), g.checked_sub(1).and_then(|j| v.get(j)).cloned());
    for s in 0..steps {
        let back = (pat >> (s % 16)) & 1 == 1;
        if back {
            let exp = g.checked_sub(1).and_then(|j| v.get(j)).cloned();
            cmp_entry!(KF, VF, "read cursor prev", io!(c.prev()), exp.clone());
            if exp.is_some() {
                g -= 1;
            }
        } else {
            let exp = v.get(g).cloned();
            cmp_entry!(KF, VF, "read cursor next", io!(c.next()), exp.clone());
            if exp.is_some() {
                g += 1;
            }
        }
        st.read_cursor_steps += 1;
    }
    cmp_entry!(KF, VF, "read cursor peek_next at end", io!(c.peek_next()), v.get(g).cloned());
    Ok(())
}

impl Check for C18 {
    fn id(&self) -> &'static str {
        "C18"
    }
    fn rule(&self) -> String {
        "tapes on (u64 -> bytes) and (&str -> bytes) tables pre-filled with 0..700 entries: lower_bound_mut/upper_bound_mut with every Bound kind on present and absent keys, then peek_next/peek_prev/next/prev, insert_before/insert_after with keys from the universe (in or out of order), computed to fit the gap, or equal to a neighbour, long ascending/descending buffered runs with values up to 2-3 pages, remove_next/remove_prev, close() or drop, commit/reopen; read-only Cursor scripts on the Table inside the transaction and on a ReadOnlyTable. Oracle: sorted vector + gap index: the gap after a seek is the partition point, every peek/move returns the model neighbour (key and value bytes), inserts are accepted iff prev < key < next in the model including pending inserts (else UnorderedKey and no change), removals return and delete the neighbour, after every close/drop a full forward+backward scan equals the model. Non-trivial: a buffered run of >= 2 pages' worth spliced at an inner gap of a height >= 2 tree followed by a move; distinct by hash of counters, family, page size, final keys.".into()
    }
    fn fuzz_runs(&self) -> u64 {
        300_000
    }
    fn plan(&self, tier: Tier) -> Plan {
        Plan { cases: tier.pick(8_000, 400_000), max_recs: 120, max_shrink_iters: 4000, workers: 16 }
    }
    fn run(&self, tape: &Tape, want_sample: bool) -> Result<CaseOut, Failure> {
        let case = decode(tape);
        let mut out = CaseOut { evals: 1, ..Default::default() };
        let r = match case.kty {
            Ty::U64 => run_typed::<FU64>(&case, &mut out),
            _ => run_typed::<FStr>(&case, &mut out),
        };
        r.map_err(stop_to_failure)?;
        if want_sample {
            out.sample = Some(self.render(tape));
        }
        Ok(out)
    }
    fn render(&self, tape: &Tape) -> Value {
        let case = decode(tape);
        json!({
            "config": case.cfg.json(),
            "key_type": case.kty.name(),
            "universe": case.universe,
            "prefill": case.prefill,
            "ops(first 60)": case.ops.iter().take(60).map(|o| format!("{o:?}")).collect::<Vec<_>>(),
        })
    }
}
