//! Recording, fault-injecting, contract-monitoring storage backend (engine `crashsim`, C20 monitor)

use redb::StorageBackend;
use std::io;
use std::sync::{Arc, Mutex};

#[derive(Clone, Debug)]
pub enum LogOp {
    Write { off: u64, data: Vec<u8> },
    SetLen(u64),
    Sync,
    Read,
    Len,
    Close,
    /// a call that was made to fail by fault injection (nothing applied)
    Failed(&'static str),
}

#[derive(Clone, Copy, Debug, PartialEq, Eq)]
pub enum FaultMode {
    Once,
    Permanent,
}

/// Mark placed by the history interpreter: from log position `at` on, the last acknowledged
/// durable commit point is `d` and the last requested commit point is `r`; `phase` names what
/// the interpreter was doing (window classification)
#[derive(Clone, Debug)]
pub struct Mark {
    pub at: usize,
    /// number of backend calls made before this mark
    pub calls_at: u64,
    pub d: usize,
    pub r: usize,
    pub phase: &'static str,
}

#[derive(Debug, Default)]
pub struct Inner {
    pub live: Vec<u8>,
    pub record: bool,
    pub log: Vec<LogOp>,
    pub marks: Vec<Mark>,
    pub calls: u64,
    pub fail_at: Option<(u64, FaultMode)>,
    pub fault_fired: bool,
    pub fault_surfaced_calls: u64,
    /// when true, reads are neither counted nor logged nor failed (observation by the harness)
    pub observe: bool,
    // monitor
    pub closes: u32,
    pub calls_after_close: Vec<String>,
    pub oob: Vec<String>,
    pub writes: u64,
    pub set_lens: u64,
    pub syncs: u64,
    pub reads: u64,
    /// deterministic sync budget (C13 boundedness): fail syncs beyond this many
    pub sync_budget: Option<u64>,
    pub sync_budget_exceeded: bool,
    /// make every close() return an error (it still counts as the one close)
    pub fail_close: bool,
    /// the call with this index panics instead of returning (a user backend that panics)
    pub panic_at: Option<u64>,
    pub close_failures: u32,
}

#[derive(Clone, Debug)]
pub struct RecBackend {
    pub inner: Arc<Mutex<Inner>>,
}

fn injected() -> io::Error {
    io::Error::other("verif: injected storage fault")
}

impl RecBackend {
    pub fn new(record: bool) -> Self {
        RecBackend {
            inner: Arc::new(Mutex::new(Inner {
                record,
                ..Default::default()
            })),
        }
    }

    pub fn from_image(image: Vec<u8>, record: bool) -> Self {
        RecBackend {
            inner: Arc::new(Mutex::new(Inner {
                live: image,
                record,
                ..Default::default()
            })),
        }
    }

    pub fn lock(&self) -> std::sync::MutexGuard<'_, Inner> {
        self.inner.lock().unwrap_or_else(|e| e.into_inner())
    }

    pub fn image(&self) -> Vec<u8> {
        self.lock().live.clone()
    }

    pub fn mark(&self, d: usize, r: usize, phase: &'static str) {
        let mut g = self.lock();
        let at = g.log.len();
        let calls_at = g.calls;
        g.marks.push(Mark { at, calls_at, d, r, phase });
    }

    pub fn log_len(&self) -> usize {
        self.lock().log.len()
    }

    pub fn calls(&self) -> u64 {
        self.lock().calls
    }

    /// A fresh handle to give to redb for a reopen: shares the bytes and log, resets the
    /// per-handle monitor state (close count)
    pub fn reopen_handle(&self) -> RecBackend {
        let mut g = self.lock();
        g.closes = 0;
        g.fail_close = false;
        drop(g);
        self.clone()
    }

    pub fn set_fault(&self, at: Option<(u64, FaultMode)>) {
        let mut g = self.lock();
        g.fail_at = at;
        g.fault_fired = false;
    }

    pub fn set_panic_at(&self, at: Option<u64>) {
        let mut g = self.lock();
        g.panic_at = at;
        g.fault_fired = false;
    }

    pub fn monitor_violations(&self) -> Vec<String> {
        let g = self.lock();
        let mut v = g.oob.clone();
        v.extend(g.calls_after_close.iter().cloned());
        v
    }
}

impl Inner {
    /// returns Err if this call must fail by injection
    fn gate(&mut self, what: &'static str) -> Result<(), io::Error> {
        if self.closes > 0 {
            self.calls_after_close
                .push(format!("{what} called after close() (call #{})", self.calls));
        }
        let idx = self.calls;
        self.calls += 1;
        if self.panic_at == Some(idx) {
            self.panic_at = None;
            self.fault_fired = true;
            if self.record {
                self.log.push(LogOp::Failed(what));
            }
            panic!("verif: injected backend panic in {what}");
        }
        if let Some((k, mode)) = self.fail_at {
            let fire = match mode {
                FaultMode::Once => idx == k,
                FaultMode::Permanent => idx >= k,
            };
            if fire {
                self.fault_fired = true;
                if self.record {
                    self.log.push(LogOp::Failed(what));
                }
                return Err(injected());
            }
        }
        Ok(())
    }
}

impl StorageBackend for RecBackend {
    fn len(&self) -> Result<u64, io::Error> {
        let mut g = self.lock();
        g.gate("len")?;
        if g.record {
            g.log.push(LogOp::Len);
        }
        Ok(g.live.len() as u64)
    }

    fn read(&self, offset: u64, out: &mut [u8]) -> Result<(), io::Error> {
        let mut g = self.lock();
        if !g.observe {
            g.gate("read")?;
            g.reads += 1;
            if g.record {
                g.log.push(LogOp::Read);
            }
        }
        let end = offset as usize + out.len();
        if end > g.live.len() {
            let m = format!(
                "read [{offset}, {end}) beyond the current length {}",
                g.live.len()
            );
            g.oob.push(m);
            return Err(io::Error::new(io::ErrorKind::InvalidInput, "read out of range"));
        }
        out.copy_from_slice(&g.live[offset as usize..end]);
        Ok(())
    }

    fn set_len(&self, len: u64) -> Result<(), io::Error> {
        let mut g = self.lock();
        g.gate("set_len")?;
        g.set_lens += 1;
        if g.record {
            g.log.push(LogOp::SetLen(len));
        }
        g.live.resize(len as usize, 0);
        Ok(())
    }

    fn sync_data(&self) -> Result<(), io::Error> {
        let mut g = self.lock();
        g.gate("sync_data")?;
        g.syncs += 1;
        if let Some(b) = g.sync_budget
            && g.syncs > b
        {
            g.sync_budget_exceeded = true;
            return Err(io::Error::other("verif: sync budget exceeded"));
        }
        if g.record {
            g.log.push(LogOp::Sync);
        }
        Ok(())
    }

    fn write(&self, offset: u64, data: &[u8]) -> Result<(), io::Error> {
        let mut g = self.lock();
        g.gate("write")?;
        g.writes += 1;
        let end = offset as usize + data.len();
        if end > g.live.len() {
            let m = format!(
                "write [{offset}, {end}) beyond the current length {}",
                g.live.len()
            );
            g.oob.push(m);
            return Err(io::Error::new(io::ErrorKind::InvalidInput, "write out of range"));
        }
        if g.record {
            g.log.push(LogOp::Write {
                off: offset,
                data: data.to_vec(),
            });
        }
        g.live[offset as usize..end].copy_from_slice(data);
        Ok(())
    }

    fn close(&self) -> Result<(), io::Error> {
        let mut g = self.lock();
        g.closes += 1;
        if g.closes > 1 {
            let m = format!("close() called {} times on one backend handle", g.closes);
            g.calls_after_close.push(m);
        }
        if g.record {
            g.log.push(LogOp::Close);
        }
        // close() is a backend call like any other: it takes a call index and can be made to fail
        let idx = g.calls;
        g.calls += 1;
        let mut fire = g.fail_close;
        if let Some((k, mode)) = g.fail_at {
            fire |= match mode {
                FaultMode::Once => idx == k,
                FaultMode::Permanent => idx >= k,
            };
        }
        if fire {
            g.fault_fired = true;
            g.close_failures += 1;
            if g.record {
                g.log.push(LogOp::Failed("close"));
            }
            return Err(injected());
        }
        Ok(())
    }
}
