//! History-based checks without crash/fault injection: C02, C05, C07 (non-crash part), C13
//! (non-crash part), C17. Each is a weight profile over the `hist` machine plus a
//! property-specific non-triviality rule.

use crate::driver::{CaseOut, Check, Failure, Plan, Tier};
use crate::hist::*;
use crate::tableops::Stop;
use crate::tape::{Fnv, Tape};
use serde_json::{Value, json};

pub struct HistCheck {
    pub id: &'static str,
    pub profile: fn(&Tape) -> Profile,
    pub rule: &'static str,
    pub assumptions: &'static [&'static str],
    pub quick: (u64, usize),
    pub thorough: (u64, usize),
    pub classify: fn(&Machine, &mut CaseOut),
    /// property-specific closing steps, run on the machine after the tape (None = nothing)
    pub finale: Option<fn(&mut Machine) -> Result<(), Stop>>,
    /// crash stage: one case in `n` is run again on a recording backend and its crash states are
    /// explored with this configuration (fault_enumeration part of C07 and C13)
    pub crash: Option<(fn(Tier) -> crate::crash::CrashCfg, u8)>,
    /// minimal tapes of listed known findings, run once per run in strict mode
    pub probes: &'static [fn() -> Tape],
}

fn run_machine(tape: &Tape, profile: Profile, trace: bool) -> (Option<Machine>, Result<(), Failure>) {
    run_machine_mode(tape, profile, trace, false)
}

/// closing steps of C05 and C07: the shared final drain (nothing may stay pinned or leaked)
fn finale_drain(m: &mut Machine) -> Result<(), Stop> {
    crate::c06c10::final_drain(m).map(|_| ())
}

fn run_machine_fin(tape: &Tape, profile: Profile, trace: bool, strict: bool, finale: Option<fn(&mut Machine) -> Result<(), Stop>>) -> (Option<Machine>, Result<(), Failure>) {
    let (m, r) = run_machine_mode(tape, profile, trace, strict);
    let (Some(mut m), Ok(())) = (m, r.clone()) else {
        return (None, r);
    };
    let r = match finale {
        Some(f) => match crate::driver::catch(|| f(&mut m)) {
            Ok(r) => r.map_err(stop_failure),
            Err(p) => Err(Failure::new(format!("panic:{}", crate::driver::normalize_sig(&p)), format!("panic in the closing steps: {p}"))),
        },
        None => Ok(()),
    };
    (Some(m), r)
}

fn run_machine_mode(tape: &Tape, profile: Profile, trace: bool, strict: bool) -> (Option<Machine>, Result<(), Failure>) {
    let cfg = decode_cfg(tape);
    let mut m = match Machine::new(cfg, profile, false, trace) {
        Ok(m) => m,
        Err(s) => return (None, Err(stop_failure(s))),
    };
    m.strict = strict;
    let r = m.run_tape(tape).map_err(stop_failure);
    (Some(m), r)
}

impl Check for HistCheck {
    fn id(&self) -> &'static str {
        self.id
    }
    fn rule(&self) -> String {
        self.rule.to_string()
    }
    fn assumptions(&self) -> Vec<String> {
        let mut v: Vec<String> = self.assumptions.iter().map(|s| s.to_string()).collect();
        v.push("the reference model's error predictions follow DESIGN.md Appendix A (read from transactions.rs / table_tree.rs)".into());
        v
    }
    fn fuzz_runs(&self) -> u64 {
        match self.id {
            "C13" => 0, // the known finding is excluded by construction only in the in-process driver
            _ => 200_000,
        }
    }
    fn plan(&self, tier: Tier) -> Plan {
        if self.crash.is_some() {
            // the crash budget is selected through an env var because `run` has no tier argument
            unsafe { std::env::set_var("VERIF_TIER_INTERNAL", tier.name()) };
        }
        let (cases, max_recs) = tier.pick(self.quick, self.thorough);
        Plan { cases, max_recs, max_shrink_iters: if self.crash.is_some() { 500 } else { 3000 }, workers: 16 }
    }
    fn run(&self, tape: &Tape, want_sample: bool) -> Result<CaseOut, Failure> {
        let (m, r) = run_machine_fin(tape, (self.profile)(tape), want_sample, false, self.finale);
        r?;
        let m = m.unwrap();
        let mut out = CaseOut { evals: 1, ..Default::default() };
        (self.classify)(&m, &mut out);
        common_classes(&m, &mut out);
        out.excluded_known = m.excluded_known;
        for c in &m.classes {
            out.class(c);
        }
        if let Some((ccfg, one_in)) = self.crash
            && tape.cfg[9] % one_in == one_in - 1
            && (self.id != "C13" || m.stats.compactions_ok > 0)
        {
            let tier = if std::env::var("VERIF_TIER_INTERNAL").ok().as_deref() == Some("thorough") { Tier::Thorough } else { Tier::Quick };
            let (_, co, r) = crate::crashchecks::run_hist_with_crash(tape, (self.profile)(tape), ccfg(tier), false, false);
            r?;
            if let Some(co) = co {
                let mut c = CaseOut::default();
                crate::crashchecks::crash_classes(&co, &mut c);
                out.evals += c.evals;
                for (k, v) in c.classes {
                    out.class_n(k, v);
                }
                out.class("case with its crash states explored");
            }
        }
        if want_sample {
            out.sample = Some(json!({
                "config": m.cfg.json(),
                "ops": m.trace.as_ref().map(|t| t.iter().take(80).cloned().collect::<Vec<_>>()),
                "n_ops": tape.recs.len(),
                "commit_points": m.commits.len(),
            }));
        }
        Ok(out)
    }
    fn extra(&self, _tier: Tier, _seed: u64, acc: &mut crate::driver::Acc) -> Vec<(Failure, Option<Tape>)> {
        let mut out = vec![];
        let mut n = 0;
        for mk in self.probes {
            let tape = mk();
            n += 1;
            let r = crate::driver::catch(|| run_machine_mode(&tape, (self.profile)(&tape), false, true).1);
            match r {
                Ok(Ok(())) => {}
                Ok(Err(f)) => out.push((f, Some(tape))),
                Err(p) => out.push((Failure::new(format!("panic:{}", crate::driver::normalize_sig(&p)), format!("panic in known-finding probe: {p}")), Some(tape))),
            }
        }
        acc.extra.insert("known_finding_probes_run".into(), json!(n));
        if self.id == "C13" {
            let (n, in_time, fails) = crate::c13conc::run_grid();
            acc.extra.insert(
                "compact_waiting_behind_a_writer".into(),
                json!({"what": "two-thread histories: compact() blocks in begin_write() behind a live write transaction whose owner then creates an ephemeral/persistent savepoint and commits/aborts; compact() must refuse (src/c13conc.rs)",
                    "scenarios_run": n, "compact_returned_within_20s": in_time}),
            );
            out.extend(fails.into_iter().map(|f| (f, None)));
        }
        if self.id == "C17" {
            let (st, fails) = crate::c17types::run_grid(16);
            acc.extra.insert(
                "type_pair_grid".into(),
                json!({"what": "every (stored definition, requested definition) pair of the menu in src/c17types.rs, opened in a write and a read transaction, before and after a reopen; expected outcome from hand-written type descriptors",
                    "exhaustive_over_menu": true, "stored_definitions": st.stored_definitions, "pairs": st.pairs, "opens": st.opens, "outcomes": st.by_outcome}),
            );
            out.extend(fails.into_iter().map(|f| (f, None)));
        }
        out
    }
    fn render(&self, tape: &Tape) -> Value {
        let (m, r) = run_machine_fin(tape, (self.profile)(tape), true, false, self.finale);
        json!({
            "config": decode_cfg(tape).json(),
            "ops_until_failure": m.as_ref().and_then(|m| m.trace.clone()),
            "result": r.err().map(|f| f.msg),
        })
    }
}

fn common_classes(m: &Machine, out: &mut CaseOut) {
    let s = &m.stats;
    if s.reopens > 0 {
        out.class("history with a reopen");
    }
    if m.bulk_ops > 0 {
        out.class("history with a bulk write (>400 pages in one transaction)");
    }
    if m.bulk_ops > 1 {
        out.class("history with >=2 bulk writes (a transaction freeing >400 pages)");
    }
    if s.nd_commits > 0 {
        out.class("history with a non-durable commit");
    }
    if s.two_phase_commits > 0 {
        out.class("history with a 2PC commit");
    }
    if s.quick_repair_commits > 0 {
        out.class("history with a quick-repair commit");
    }
    if s.restores > 0 {
        out.class("history with a savepoint restore");
    }
    if s.compactions_ok > 0 {
        out.class("history with a completed compaction");
    }
    if s.compactions_refused > 0 {
        out.class("history with a refused compaction");
    }
    if s.aborts > 0 {
        out.class("history with an abort/drop");
    }
    if s.poisoned_commits > 0 {
        out.class("history with a poisoned commit");
    }
    if s.max_height >= 2 {
        out.class("some table reached height>=2");
    }
    if s.catalog_errors > 0 {
        out.class("history with a refused catalog op");
    }
    if m.cfg.cache_size <= 8 * m.cfg.page_size {
        out.class("cache<=8 pages");
    }
}

fn hash_hist(m: &Machine, extra: &[u64]) -> u64 {
    let mut h = Fnv::new();
    h.write_u64(m.commits.len() as u64);
    h.write_u64(m.last().hash());
    h.write_u64(u64::from(m.stats.commits));
    h.write_u64(u64::from(m.stats.aborts));
    h.write_u64(u64::from(m.stats.restores));
    h.write_u64(m.cfg.page_size as u64);
    for e in extra {
        h.write_u64(*e);
    }
    h.finish()
}

// ---------------------------------------------------------------------------------------------
// C02

fn p_c02(tape: &Tape) -> Profile {
    let mut p = Profile::base();
    p.w_begin_read = 14;
    p.w_reader_probe = 26;
    p.w_take_owned = 8;
    p.w_owned_step = 12;
    p.w_drop_reader = 6;
    p.w_commit = 30;
    p.w_delete_table = 4;
    p.w_restore = 4;
    p.w_sp_eph = 4;
    p.w_compact = 2;
    p.w_reopen = 0; // a reopen would end every reader
    p.w_check = 0;
    p.probe_readers_each_step = tape.cfg[6] % 4 == 0;
    p.key_universe = 48;
    p
}

fn c_c02(m: &Machine, out: &mut CaseOut) {
    out.nontrivial.extend(m.nontrivial.iter().copied());
    if !m.nontrivial.is_empty() {
        out.class("reader consulted after >=1 freeing and >=1 allocating later commit (small cache or non-durable)");
    }
    if m.stats.owned_steps > 0 {
        out.class("owned iterator/guard consulted later");
    }
    out.class_n("reader probes", u64::from(m.stats.reader_probes));
    if m.stats.max_live_readers >= 3 {
        out.class(">=3 simultaneously live readers");
    }
}

pub fn c02() -> HistCheck {
    HistCheck {
        id: "C02",
        profile: p_c02,
        rule: "hist tapes with up to 6 live readers begun at different commit points, owned ranges/guards kept past the transaction handle and resumed later, followed by commits of all durabilities, table deletes, aborts, savepoint restores, refused compactions, growth/shrink, cache sizes from 0; after later steps each reader's table list, get/range/first/last/len and full scans, and every resumed owned object, must equal the model snapshot of its commit point. Non-trivial: a reader (or its owned object) consulted after >=2 later commits of which >=1 freed (delete/overwrite) and >=1 allocated, with cache <= 8 pages or a non-durable commit in between; distinct by hash of (reader commit point, current commit point, both states).",
        assumptions: &["single-threaded schedule here; reader/writer thread interleavings are C03's engine"],
        quick: (16_000, 140),
        thorough: (300_000, 200),
        classify: c_c02,
        finale: None,
        crash: None,
        probes: &[],
    }
}

// ---------------------------------------------------------------------------------------------
// C05

fn p_c05(_tape: &Tape) -> Profile {
    let mut p = Profile::base();
    p.w_abort = 24;
    p.w_commit = 14;
    p.allow_panic = true;
    p.w_sp_eph = 6;
    p.w_sp_pers = 6;
    p.w_restore = 6;
    p.w_del_pers = 4;
    p.w_rename = 6;
    p.w_delete_table = 6;
    p.w_hold = 4;
    p.w_begin = 14;
    p.w_compact = 0;
    p.key_universe = 64;
    p
}

fn c_c05(m: &Machine, out: &mut CaseOut) {
    if let Some(a) = &m.last_abandon {
        out.classes.push((
            match a.how {
                "abort" => "last abandonment by abort()",
                "drop" => "last abandonment by drop",
                _ => "last abandonment by poisoned commit",
            },
            1,
        ));
        if a.structural_ops >= 1 && a.alloc_ops >= 1 && (a.had_live_savepoint || a.had_nondurable_before) {
            out.nontrivial.push(hash_hist(m, &[u64::from(a.structural_ops), u64::from(a.alloc_ops)]));
            out.class("nontrivial abandonment (structural op + allocating write, savepoint or non-durable commit before)");
        }
    }
    out.class_n("abandoned transactions", u64::from(m.stats.aborts + m.stats.poisoned_commits));
}

pub fn c05() -> HistCheck {
    HistCheck {
        id: "C05",
        profile: p_c05,
        rule: "hist tapes in which transactions (table writes, create/rename/delete, savepoint create/delete/restore, durability changes, held handles) end by abort(), by drop, or by commit() after a panicking retain predicate (caught outside the transaction); after every abandonment: committed contents of every table, table lists, list_persistent_savepoints, allocated_pages (exact equality with the value at the start of the abandoned transaction) must be unchanged, commit() of a poisoned transaction must return TransactionPoisoned; savepoint validity is checked by later restores in the same history. Non-trivial: the abandoned body held >=1 structural op and >=1 allocating write and the preceding history has a live savepoint or a pending non-durable commit; distinct by history hash.",
        assumptions: &["a WriteTransaction dropped during unwinding (documented leak until reopen) is not generated", "storage-error-inside-operation cases are judged by C08"],
        quick: (30_000, 120),
        thorough: (600_000, 160),
        classify: c_c05,
        finale: Some(finale_drain),
        crash: None,
        probes: &[],
    }
}

// ---------------------------------------------------------------------------------------------
// C07 (no-crash part)

fn p_c07(_tape: &Tape) -> Profile {
    let mut p = Profile::base();
    p.w_sp_eph = 12;
    p.w_sp_pers = 12;
    p.w_restore = 16;
    p.w_del_pers = 7;
    p.w_drop_eph = 6;
    p.w_commit = 36;
    p.w_abort = 8;
    p.w_begin = 14;
    p.w_reopen = 5;
    p.w_table_op = 90;
    p.w_delete_table = 4;
    p.w_rename = 3;
    p.key_universe = 40;
    p
}

fn c_c07(m: &Machine, out: &mut CaseOut) {
    if m.stats.restores_not_newest >= 1 && m.stats.nd_commits >= 1 {
        out.nontrivial.push(hash_hist(m, &[u64::from(m.stats.restores_not_newest)]));
        out.class("restore to a savepoint that is not the newest, with non-durable commits in the history");
    }
    out.class_n("restores", u64::from(m.stats.restores));
    out.class_n("refusals checked", u64::from(m.stats.errors_expected));
}

pub fn c07() -> HistCheck {
    HistCheck {
        id: "C07",
        profile: p_c07,
        rule: "hist tapes dominated by savepoint operations (ephemeral/persistent create, restore, delete, drop) in all legal and illegal orders interleaved with data transactions of all durabilities, aborts and clean reopen; restore+commit must make every table and the catalog equal the captured model state, later savepoints must be refused (InvalidSavepoint) or vanish from list/get, restore+abort must change nothing, persistent ids must survive reopen; every refusal variant is compared with the model. The crash part (persistent savepoints across crash states) runs in C01's engine. Non-trivial: a successful restore to a savepoint that is not the newest live one in a history with >=1 non-durable commit; distinct by history hash.",
        assumptions: &["Savepoint objects of persistent savepoints are fetched fresh with get_persistent_savepoint"],
        quick: (30_000, 140),
        thorough: (600_000, 200),
        classify: c_c07,
        finale: Some(finale_drain),
        crash: Some((cc_c07, 12)),
        probes: &[],
    }
}

// ---------------------------------------------------------------------------------------------
// C13 (no-crash part)

fn p_c13(_tape: &Tape) -> Profile {
    let mut p = Profile::base();
    p.w_compact = 9;
    p.w_table_op = 160;
    p.w_delete_table = 4;
    p.w_begin_read = 2;
    p.w_sp_eph = 2;
    p.w_sp_pers = 2;
    p.w_del_pers = 4;
    p.w_drop_eph = 5;
    p.w_drop_reader = 8;
    p.w_reopen = 2;
    p.key_universe = 160;
    p
}

fn c_c13(m: &Machine, out: &mut CaseOut) {
    if m.stats.compactions_ok >= 1 && m.stats.max_height >= 2 {
        out.nontrivial.push(hash_hist(m, &[u64::from(m.stats.compactions_ok)]));
        out.class("completed compaction of a database with a height>=2 table");
    }
    out.class_n("compactions completed", u64::from(m.stats.compactions_ok));
    out.class_n("compactions refused (reason checked)", u64::from(m.stats.compactions_refused));
}

/// known finding C13/compact-at-rest-growth-within-doubling: empty database, close, open,
/// compact (measured at rest), close
fn probe_c13_empty_compact() -> Tape {
    let mut cfg = [0u8; 16];
    cfg[1] = 0xb7; // 2 MiB regions
    let p = p_c13(&Tape { cfg, recs: vec![] });
    build_tape(&p, cfg, &[(kind::COMPACT, &[0])])
}

pub fn c13() -> HistCheck {
    HistCheck {
        id: "C13",
        profile: p_c13,
        rule: "hist tapes building fragmented multi-region states (interleaved big/small values, deletes, pending frees, pending non-durable commits, multimap subtrees) with compact() calls; with a reader, owned object or savepoint alive compact() must refuse with a variant naming a condition that holds and change nothing; otherwise contents of every table must be unchanged and the backend length must not grow. Non-trivial: a completed compaction on a database holding a table of height >= 2; distinct by history hash. Crash states inside compaction windows are enumerated by C01's engine (phase 'compact').",
        assumptions: &["compact() is never called with a live write transaction on the same thread (documented deadlock)"],
        quick: (12_000, 200),
        thorough: (200_000, 260),
        classify: c_c13,
        finale: None,
        crash: Some((cc_c13, 5)),
        probes: &[probe_c13_empty_compact],
    }
}

// ---------------------------------------------------------------------------------------------
// C17

fn p_c17(_tape: &Tape) -> Profile {
    let mut p = Profile::base();
    p.mismatch = 70;
    p.w_table_op = 60;
    p.w_rename = 22;
    p.w_delete_table = 18;
    p.w_list = 10;
    p.w_hold = 16;
    p.w_drop_hold = 12;
    p.w_commit = 18;
    p.w_abort = 8;
    p.w_reopen = 3;
    p.w_sp_eph = 0;
    p.w_sp_pers = 0;
    p.w_restore = 0;
    p.w_compact = 0;
    p.key_universe = 12;
    p
}

fn c_c17(m: &Machine, out: &mut CaseOut) {
    if m.stats.catalog_errors >= 1 && (m.stats.renames_ok + m.stats.deletes_ok) >= 1 {
        out.nontrivial.push(hash_hist(m, &[u64::from(m.stats.catalog_errors), u64::from(m.stats.renames_ok), u64::from(m.stats.deletes_ok)]));
        out.class("refused catalog op (variant checked) + successful rename/delete in one history");
    }
    out.class_n("catalog refusals checked", u64::from(m.stats.catalog_errors));
    out.class_n("renames", u64::from(m.stats.renames_ok));
    out.class_n("deletes", u64::from(m.stats.deletes_ok));
}

/// "deleting a table releases all of its storage": after the history, every table is deleted
/// through the API (half of them first, then the rest), nothing holds old pages, the pending-free
/// lists are drained by empty durable commits, and the independent accounting must be exact:
/// allocated pages == pages reachable from the roots (which no longer contain the deleted tables).
fn finale_c17(m: &mut Machine) -> Result<(), Stop> {
    use crate::account::account;
    use crate::{sensure, sfail};
    m.finish()?;
    m.drop_all_handles();
    fn drain(m: &mut Machine, what: &str) -> Result<crate::account::Accounting, Stop> {
        for i in 0..9u32 {
            let a = match account(m.db.as_ref().unwrap()) {
                Ok(a) => a,
                Err(e) => sfail!("page-accounting", "{what} (empty commit {i}): {e}"),
            };
            if a.pending_free == 0 {
                return Ok(a);
            }
            m.begin_write(Dur::Immediate, false, false)?;
            m.commit()?;
        }
        sfail!("pending-free-not-drained", "{what}: pages still pending free after 8 empty durable commits with nothing alive");
    }
    let before = drain(m, "before deleting the tables")?;
    let names: Vec<(String, bool)> = m.last().tables.iter().map(|(n, t)| (n.clone(), t.def().multi)).collect();
    let mut last = before.allocated;
    for round in 0..2 {
        let batch: Vec<&(String, bool)> = names.iter().enumerate().filter(|(i, _)| i % 2 == round).map(|(_, x)| x).collect();
        if batch.is_empty() {
            continue;
        }
        m.begin_write(Dur::Immediate, false, false)?;
        {
            let w = m.w.as_mut().unwrap();
            let txn = w.txn.as_ref().unwrap();
            for (name, multi) in &batch {
                let r = if *multi {
                    let d: redb::MultimapTableDefinition<u64, u64> = redb::MultimapTableDefinition::new(name);
                    txn.delete_multimap_table(d)
                } else {
                    let d: redb::TableDefinition<u64, u64> = redb::TableDefinition::new(name);
                    txn.delete_table(d)
                };
                match r {
                    Ok(true) => {
                        std::sync::Arc::make_mut(&mut w.work.tables).remove(name.as_str());
                    }
                    Ok(false) => sfail!("delete-result", "closing steps: delete of existing table {name:?} returned false"),
                    Err(redb::TableError::Storage(e)) => return Err(Stop::Io(format!("{e:?}"))),
                    Err(e) => sfail!("delete-unexpected-error", "closing steps: delete of table {name:?} failed: {e:?}"),
                }
            }
            w.dirty = true;
        }
        m.commit()?;
        let a = drain(m, "after deleting tables")?;
        // exactness (allocated == reachable, each page once) is established by account(); the
        // deleted tables are no longer reachable, so their pages must have left the allocator
        sensure!(a.allocated == a.reachable, "delete-leaks-storage", "after deleting {:?} and draining: {} pages allocated, {} reachable", batch, a.allocated, a.reachable);
        sensure!(a.allocated <= last, "delete-leaks-storage", "after deleting {:?} and draining, allocated pages grew from {} to {}", batch, last, a.allocated);
        last = a.allocated;
    }
    m.verify_committed()?;
    m.classes.push("closing steps: all tables deleted, storage accounted exactly");
    Ok(())
}

fn cc_c07(tier: Tier) -> crate::crash::CrashCfg {
    crate::crash::CrashCfg { max_states: tier.pick(80, 200), exhaustive_w: tier.pick(3, 6), per_instant: tier.pick(3, 5), nested_depth: 1, nested_states: 1, check_integrity: false, continue_writes: false, phases: &[] }
}

fn cc_c13(tier: Tier) -> crate::crash::CrashCfg {
    crate::crash::CrashCfg { max_states: tier.pick(150, 400), exhaustive_w: tier.pick(4, 7), per_instant: tier.pick(5, 8), nested_depth: 1, nested_states: 1, check_integrity: false, continue_writes: false, phases: &["compact"] }
}

pub fn c17() -> HistCheck {
    HistCheck {
        id: "C17",
        profile: p_c17,
        rule: "hist catalog profile: 6 names (prefixes of each other, one non-ASCII) x 8 definitions (table/multimap x key u64/&str x value &[u8]/u64), operations open (stored or deliberately different definition), a few data ops, hold/drop handle in any order, open twice, rename (to self, to existing, of open table, of missing, wrong kind), delete (wrong kind, open, missing), list in write and read transactions, commit/abort, reopen; compared with a model map name -> (kind, types, contents) with transaction-local staging; exact TableError variant for TableAlreadyOpen, TableDoesNotExist, TableExists, TableIsMultimap, TableIsNotMultimap, TableTypeMismatch. Closing steps of every history ('deleting a table releases all of its storage'): drop every handle, drain the pending-free lists with empty durable commits, delete the tables in two batches through the API, drain again; the independent page accounting (snapshot hook + decoder: allocated == reachable from the roots, each page once) must be exact and the allocated page count must not grow. Non-trivial: a history with >=1 refused operation whose variant was checked and >=1 successful rename or delete; distinct by history hash.",
        assumptions: &["rename onto an existing table of the other kind: only 'an error and no change' is required (the code reports the kind error)"],
        quick: (50_000, 120),
        thorough: (1_000_000, 160),
        classify: c_c17,
        finale: Some(finale_c17),
        crash: None,
        probes: &[],
    }
}
