//! `decoder`: an independent reader of the v3 file format, written from docs/design.md and the
//! layout comments (DESIGN.md Appendix C). Shares no code with redb; checksums come from the
//! `xxhash-rust` crate.

use std::cmp::Ordering;
use std::collections::{BTreeMap, BTreeSet};

pub type PageKey = (u32, u32, u8); // region, index (at its order), order

pub fn xxh3_128(data: &[u8]) -> u128 {
    xxhash_rust::xxh3::xxh3_128_with_seed(data, 0)
}

#[derive(Clone, Copy, Debug, PartialEq, Eq)]
pub struct Root {
    pub page: PageKey,
    pub checksum: u128,
    pub length: u64,
}

fn u16le(b: &[u8], o: usize) -> Option<u16> {
    b.get(o..o + 2).map(|s| u16::from_le_bytes(s.try_into().unwrap()))
}
fn u32le(b: &[u8], o: usize) -> Option<u32> {
    b.get(o..o + 4).map(|s| u32::from_le_bytes(s.try_into().unwrap()))
}
fn u64le(b: &[u8], o: usize) -> Option<u64> {
    b.get(o..o + 8).map(|s| u64::from_le_bytes(s.try_into().unwrap()))
}
fn u128le(b: &[u8], o: usize) -> Option<u128> {
    b.get(o..o + 16).map(|s| u128::from_le_bytes(s.try_into().unwrap()))
}

pub fn page_number(raw: u64) -> PageKey {
    let order = (raw >> 59) as u8;
    let index = (raw & (0x000F_FFFFu64 >> order.min(20))) as u32;
    let region = ((raw >> 20) & 0x000F_FFFF) as u32;
    (region, index, order)
}

pub fn parse_root(b: &[u8]) -> Option<Root> {
    Some(Root { page: page_number(u64le(b, 0)?), checksum: u128le(b, 8)?, length: u64le(b, 24)? })
}

#[derive(Clone, Debug)]
pub struct Slot {
    pub version: u8,
    pub user_root: Option<Root>,
    pub system_root: Option<Root>,
    pub transaction_id: u64,
    pub checksum_ok: bool,
}

#[derive(Clone, Debug)]
pub struct Header {
    pub page_size: u32,
    pub region_header_pages: u32,
    pub region_max_pages: u32,
    pub full_regions: u32,
    pub trailing_pages: u32,
    pub god_byte: u8,
    pub primary: usize,
    pub recovery_required: bool,
    pub two_phase: bool,
    pub slots: [Slot; 2],
}

pub const MAGIC: [u8; 9] = [0x72, 0x65, 0x64, 0x62, 0x1A, 0x0A, 0xA9, 0x0D, 0x0A];

impl Header {
    pub fn parse(img: &[u8]) -> Result<Header, String> {
        if img.len() < 320 {
            return Err(format!("file of {} bytes is shorter than the header", img.len()));
        }
        if img[..9] != MAGIC {
            return Err("bad magic number".into());
        }
        let god = img[9];
        let slot = |off: usize| -> Slot {
            let b = &img[off..off + 128];
            let user_root = if b[1] != 0 { parse_root(&b[8..40]) } else { None };
            let system_root = if b[2] != 0 { parse_root(&b[40..72]) } else { None };
            let stored = u128le(b, 112).unwrap();
            Slot { version: b[0], user_root, system_root, transaction_id: u64le(b, 104).unwrap(), checksum_ok: xxh3_128(&b[..112]) == stored }
        };
        Ok(Header {
            page_size: u32le(img, 12).unwrap(),
            region_header_pages: u32le(img, 16).unwrap(),
            region_max_pages: u32le(img, 20).unwrap(),
            full_regions: u32le(img, 24).unwrap(),
            trailing_pages: u32le(img, 28).unwrap(),
            god_byte: god,
            primary: (god & 1) as usize,
            recovery_required: god & 2 != 0,
            two_phase: god & 4 != 0,
            slots: [slot(64), slot(192)],
        })
    }

    pub fn layout_len(&self) -> u64 {
        let p = u64::from(self.page_size);
        let per = u64::from(self.region_header_pages) + u64::from(self.region_max_pages);
        p * (1 + u64::from(self.full_regions) * per + if self.trailing_pages > 0 { u64::from(self.region_header_pages) + u64::from(self.trailing_pages) } else { 0 })
    }

    /// pages in region `r` according to the stored layout
    pub fn region_pages(&self, r: u32) -> u32 {
        if r < self.full_regions {
            self.region_max_pages
        } else if r == self.full_regions {
            self.trailing_pages
        } else {
            0
        }
    }

    pub fn page_range(&self, p: PageKey) -> (u64, u64) {
        let ps = u64::from(self.page_size);
        let per = (u64::from(self.region_header_pages) + u64::from(self.region_max_pages)) * ps;
        let start = ps + u64::from(p.0) * per + u64::from(self.region_header_pages) * ps + u64::from(p.1) * (ps << p.2);
        (start, start + (ps << p.2))
    }
}

/// where page bytes come from: a file image, or a live database through the peek hook
pub trait PageSource {
    fn page(&self, p: PageKey) -> Result<Vec<u8>, String>;
    /// number of order-0 pages in region r (None: unknown region)
    fn region_len(&self, r: u32) -> Option<u32>;
    fn page_size(&self) -> usize;
}

pub struct ImageSource<'a> {
    pub img: &'a [u8],
    pub header: Header,
    /// region sizes derived from the file length (the stored counts are untrusted when recovery is required)
    pub regions: Vec<u32>,
}

impl<'a> ImageSource<'a> {
    pub fn new(img: &'a [u8]) -> Result<ImageSource<'a>, String> {
        let header = Header::parse(img)?;
        let ps = u64::from(header.page_size);
        if ps < 512 || !ps.is_power_of_two() {
            return Err(format!("page size {ps}"));
        }
        let per = u64::from(header.region_header_pages) + u64::from(header.region_max_pages);
        if per == 0 {
            return Err("region geometry is zero".into());
        }
        let total_pages = (img.len() as u64 / ps).saturating_sub(1);
        let mut regions = vec![];
        let mut left = total_pages;
        while left > 0 {
            let take = left.min(per);
            regions.push(take.saturating_sub(u64::from(header.region_header_pages)) as u32);
            left -= take;
        }
        Ok(ImageSource { img, header, regions })
    }
}

impl PageSource for ImageSource<'_> {
    fn page(&self, p: PageKey) -> Result<Vec<u8>, String> {
        let (s, e) = self.header.page_range(p);
        if e as usize > self.img.len() {
            return Err(format!("page {p:?} [{s},{e}) lies beyond the file ({} bytes)", self.img.len()));
        }
        Ok(self.img[s as usize..e as usize].to_vec())
    }
    fn region_len(&self, r: u32) -> Option<u32> {
        self.regions.get(r as usize).copied()
    }
    fn page_size(&self) -> usize {
        self.header.page_size as usize
    }
}

pub type Cmp = fn(&[u8], &[u8]) -> Ordering;

pub fn cmp_bytes(a: &[u8], b: &[u8]) -> Ordering {
    a.cmp(b)
}
pub fn cmp_u64(a: &[u8], b: &[u8]) -> Ordering {
    u64::from_le_bytes(a.try_into().unwrap_or([0; 8])).cmp(&u64::from_le_bytes(b.try_into().unwrap_or([0; 8])))
}
pub fn cmp_u64_pair(a: &[u8], b: &[u8]) -> Ordering {
    if a.len() != 16 || b.len() != 16 {
        return a.cmp(b);
    }
    (u64le(a, 0), u64le(a, 8)).cmp(&(u64le(b, 0), u64le(b, 8)))
}
pub fn cmp_unit(_a: &[u8], _b: &[u8]) -> Ordering {
    Ordering::Equal
}
pub fn cmp_alloc_key(a: &[u8], b: &[u8]) -> Ordering {
    if a.len() != 5 || b.len() != 5 {
        return a.cmp(b);
    }
    // ordered by (tag, region); tags 0..=2 are "deprecated" and sort first
    let k = |x: &[u8]| (x[0].max(2), if x[0] == 3 { u32le(x, 1).unwrap() } else { 0 });
    k(a).cmp(&k(b))
}

/// comparator for a stored key type name (classification byte stripped)
pub fn cmp_for(type_name: &str) -> Option<Cmp> {
    Some(match type_name {
        "u64" => cmp_u64,
        "&str" | "&[u8]" | "String" => cmp_bytes,
        "()" => cmp_unit,
        "redb::TransactionIdWithPagination" => cmp_u64_pair,
        "redb::SavepointId" => cmp_u64,
        "redb::AllocatorStateKey" => cmp_alloc_key,
        _ => return None,
    })
}

#[derive(Clone, Copy, Debug)]
pub struct Spec {
    pub fixed_key: Option<usize>,
    pub fixed_val: Option<usize>,
    pub cmp: Cmp,
}

#[derive(Default, Debug, Clone)]
pub struct TreeInfo {
    pub entries: Vec<(Vec<u8>, Vec<u8>)>,
    pub height: u32,
    pub leaf_pages: u32,
    pub branch_pages: u32,
    pub pages: Vec<PageKey>,
    pub shortened_separators: u32,
}

pub struct Walker<'a> {
    pub src: &'a dyn PageSource,
    /// order-0 page coverage seen so far across the whole forest: (region, order-0 index)
    pub seen: BTreeSet<(u32, u32)>,
    pub verify_checksums: bool,
    /// byte ranges [start,end) within pages that are covered by a checksum (for C12): page -> prefix length
    pub covered: BTreeMap<PageKey, usize>,
}

#[derive(Debug)]
pub struct Leaf<'a> {
    pub n: usize,
    pub page: &'a [u8],
    pub keys: Vec<(usize, usize)>,
    pub vals: Vec<(usize, usize)>,
    pub end: usize,
}

/// parse a leaf page image (also used for inline multimap collections)
pub fn parse_leaf<'a>(page: &'a [u8], fixed_key: Option<usize>, fixed_val: Option<usize>, what: &str) -> Result<Leaf<'a>, String> {
    if page.len() < 4 {
        return Err(format!("{what}: leaf shorter than its header"));
    }
    if page[0] != 1 {
        return Err(format!("{what}: page type byte is {}, expected 1 (leaf)", page[0]));
    }
    let n = u16le(page, 2).unwrap() as usize;
    if n == 0 {
        return Err(format!("{what}: leaf with zero pairs"));
    }
    let mut off = 4;
    let mut key_ends = vec![];
    if fixed_key.is_none() {
        for i in 0..n {
            key_ends.push(u32le(page, off + 4 * i).ok_or_else(|| format!("{what}: key end table beyond the page"))? as usize);
        }
        off += 4 * n;
    }
    let mut val_ends = vec![];
    if fixed_val.is_none() {
        for i in 0..n {
            val_ends.push(u32le(page, off + 4 * i).ok_or_else(|| format!("{what}: value end table beyond the page"))? as usize);
        }
        off += 4 * n;
    }
    let mut keys = vec![];
    let mut pos = off;
    for i in 0..n {
        let end = match fixed_key {
            Some(w) => pos + w,
            None => key_ends[i],
        };
        if end < pos || end > page.len() {
            return Err(format!("{what}: key {i} has range [{pos},{end}) outside the page or reversed"));
        }
        keys.push((pos, end));
        pos = end;
    }
    let mut vals = vec![];
    for i in 0..n {
        let end = match fixed_val {
            Some(w) => pos + w,
            None => val_ends[i],
        };
        if end < pos || end > page.len() {
            return Err(format!("{what}: value {i} has range [{pos},{end}) outside the page or reversed"));
        }
        vals.push((pos, end));
        pos = end;
    }
    Ok(Leaf { n, page, keys, vals, end: pos })
}

impl<'a> Walker<'a> {
    pub fn new(src: &'a dyn PageSource) -> Walker<'a> {
        Walker { src, seen: BTreeSet::new(), verify_checksums: true, covered: BTreeMap::new() }
    }

    fn claim(&mut self, p: PageKey, what: &str) -> Result<(), String> {
        if p.2 > 20 {
            return Err(format!("{what}: page {p:?} has an impossible order"));
        }
        let rl = self.src.region_len(p.0).ok_or_else(|| format!("{what}: page {p:?} names region {} which the layout does not have", p.0))?;
        let start = u64::from(p.1) << p.2;
        let end = start + (1u64 << p.2);
        if end > u64::from(rl) {
            return Err(format!("{what}: page {p:?} (order-0 pages {start}..{end}) lies outside its region of {rl} pages"));
        }
        for i in start..end {
            if !self.seen.insert((p.0, i as u32)) {
                return Err(format!("{what}: page {p:?} is referenced twice (order-0 page {i} of region {} already belongs to the forest)", p.0));
            }
        }
        Ok(())
    }

    /// Walk one tree. `lo` exclusive / `hi` inclusive bounds come from the branch keys above.
    #[allow(clippy::too_many_arguments)]
    fn walk(&mut self, p: PageKey, checksum: u128, spec: &Spec, lo: Option<&[u8]>, hi: Option<&[u8]>, depth: u32, out: &mut TreeInfo, leaf_depth: &mut Option<u32>, what: &str) -> Result<(), String> {
        if depth > 64 {
            return Err(format!("{what}: tree deeper than 64 levels"));
        }
        self.claim(p, what)?;
        out.pages.push(p);
        let page = self.src.page(p)?;
        match page.first() {
            Some(1) => {
                let leaf = parse_leaf(&page, spec.fixed_key, spec.fixed_val, &format!("{what} leaf {p:?}"))?;
                if self.verify_checksums {
                    let got = xxh3_128(&page[..leaf.end]);
                    if got != checksum {
                        return Err(format!("{what}: leaf {p:?}: stored checksum does not match the {} bytes it covers", leaf.end));
                    }
                }
                self.covered.insert(p, leaf.end);
                match leaf_depth {
                    None => *leaf_depth = Some(depth),
                    Some(d) if *d != depth => return Err(format!("{what}: leaf {p:?} at depth {depth}, another leaf at depth {d}")),
                    _ => {}
                }
                out.leaf_pages += 1;
                let mut prev: Option<&[u8]> = None;
                for i in 0..leaf.n {
                    let k = &page[leaf.keys[i].0..leaf.keys[i].1];
                    if let Some(pk) = prev
                        && (spec.cmp)(pk, k) != Ordering::Less
                    {
                        return Err(format!("{what}: leaf {p:?}: key {i} is not strictly greater than key {}", i - 1));
                    }
                    if let Some(l) = lo
                        && (spec.cmp)(l, k) != Ordering::Less
                    {
                        return Err(format!("{what}: leaf {p:?}: key {i} is not greater than the routing key on its left"));
                    }
                    if let Some(h) = hi
                        && (spec.cmp)(k, h) == Ordering::Greater
                    {
                        return Err(format!("{what}: leaf {p:?}: key {i} is greater than the routing key on its right"));
                    }
                    prev = Some(k);
                    out.entries.push((k.to_vec(), page[leaf.vals[i].0..leaf.vals[i].1].to_vec()));
                }
            }
            Some(2) => {
                let k = u16le(&page, 2).ok_or("branch header")? as usize;
                if k == 0 {
                    return Err(format!("{what}: branch {p:?} with zero keys"));
                }
                let cs_off = 8;
                let pn_off = cs_off + 16 * (k + 1);
                let mut off = pn_off + 8 * (k + 1);
                let mut key_ranges = vec![];
                if let Some(w) = spec.fixed_key {
                    let mut pos = off;
                    for _ in 0..k {
                        key_ranges.push((pos, pos + w));
                        pos += w;
                    }
                    off = pos;
                } else {
                    let mut pos = off + 4 * k;
                    for i in 0..k {
                        let end = u32le(&page, off + 4 * i).ok_or_else(|| format!("{what}: branch {p:?}: key end table beyond the page"))? as usize;
                        if end < pos || end > page.len() {
                            return Err(format!("{what}: branch {p:?}: key {i} range [{pos},{end}) outside the page"));
                        }
                        key_ranges.push((pos, end));
                        pos = end;
                    }
                    off = pos;
                }
                if off > page.len() {
                    return Err(format!("{what}: branch {p:?}: keys end at {off}, beyond the page"));
                }
                if self.verify_checksums {
                    let got = xxh3_128(&page[..off]);
                    if got != checksum {
                        return Err(format!("{what}: branch {p:?}: stored checksum does not match the {off} bytes it covers"));
                    }
                }
                self.covered.insert(p, off);
                out.branch_pages += 1;
                for i in 1..k {
                    let a = &page[key_ranges[i - 1].0..key_ranges[i - 1].1];
                    let b = &page[key_ranges[i].0..key_ranges[i].1];
                    if (spec.cmp)(a, b) != Ordering::Less {
                        return Err(format!("{what}: branch {p:?}: routing key {i} is not strictly greater than routing key {}", i - 1));
                    }
                }
                for i in 0..=k {
                    let child = page_number(u64le(&page, pn_off + 8 * i).ok_or("child page number")?);
                    let ccs = u128le(&page, cs_off + 16 * i).ok_or("child checksum")?;
                    let clo: Option<Vec<u8>> = if i == 0 { lo.map(|x| x.to_vec()) } else { Some(page[key_ranges[i - 1].0..key_ranges[i - 1].1].to_vec()) };
                    let chi: Option<Vec<u8>> = if i == k { hi.map(|x| x.to_vec()) } else { Some(page[key_ranges[i].0..key_ranges[i].1].to_vec()) };
                    let before = out.entries.len();
                    self.walk(child, ccs, spec, clo.as_deref(), chi.as_deref(), depth + 1, out, leaf_depth, what)?;
                    // shortened separator: routing key i shorter than the greatest key of child i
                    if i < k
                        && spec.fixed_key.is_none()
                        && let Some((last_key, _)) = out.entries[before..].last()
                        && key_ranges[i].1 - key_ranges[i].0 < last_key.len()
                    {
                        out.shortened_separators += 1;
                    }
                }
            }
            t => return Err(format!("{what}: page {p:?} has type byte {t:?}, expected 1 or 2")),
        }
        Ok(())
    }

    pub fn tree(&mut self, root: Option<Root>, spec: &Spec, what: &str) -> Result<TreeInfo, String> {
        let mut out = TreeInfo::default();
        if let Some(r) = root {
            let mut ld = None;
            self.walk(r.page, r.checksum, spec, None, None, 1, &mut out, &mut ld, what)?;
            out.height = ld.unwrap_or(0);
            if out.entries.len() as u64 != r.length {
                return Err(format!("{what}: stored entry count {} but the tree holds {} entries", r.length, out.entries.len()));
            }
        }
        Ok(out)
    }
}

#[derive(Clone, Debug)]
pub struct TableDef {
    pub multimap: bool,
    pub table_length: u64,
    pub root: Option<Root>,
    pub fixed_key: Option<usize>,
    pub fixed_val: Option<usize>,
    pub key_align: u32,
    pub val_align: u32,
    pub key_class: u8,
    pub key_type: String,
    pub val_class: u8,
    pub val_type: String,
}

pub fn parse_table_def(v: &[u8], name: &str) -> Result<TableDef, String> {
    if v.len() < 66 {
        return Err(format!("table definition of {name:?} has only {} bytes", v.len()));
    }
    let kind = v[0];
    if kind != 3 && kind != 4 {
        return Err(format!("table definition of {name:?}: kind byte {kind}"));
    }
    let root = if v[9] != 0 { parse_root(&v[10..42]) } else { None };
    let fixed_key = (v[42] != 0).then(|| u32le(v, 43).unwrap() as usize);
    let fixed_val = (v[47] != 0).then(|| u32le(v, 48).unwrap() as usize);
    let ktl = u32le(v, 60).unwrap() as usize;
    if 64 + ktl > v.len() || ktl == 0 || 64 + ktl == v.len() {
        return Err(format!("table definition of {name:?}: key type name length {ktl} does not fit"));
    }
    let kt = &v[64..64 + ktl];
    let vt = &v[64 + ktl..];
    Ok(TableDef {
        multimap: kind == 4,
        table_length: u64le(v, 1).unwrap(),
        root,
        fixed_key,
        fixed_val,
        key_align: u32le(v, 52).unwrap(),
        val_align: u32le(v, 56).unwrap(),
        key_class: kt[0],
        key_type: String::from_utf8_lossy(&kt[1..]).into_owned(),
        val_class: vt[0],
        val_type: String::from_utf8_lossy(&vt[1..]).into_owned(),
    })
}

#[derive(Clone, Debug)]
pub enum TableContents {
    Normal(Vec<(Vec<u8>, Vec<u8>)>),
    /// key -> values in stored order
    Multimap(Vec<(Vec<u8>, Vec<Vec<u8>>)>),
}

#[derive(Clone, Debug)]
pub struct DecodedTable {
    pub def: TableDef,
    pub contents: TableContents,
    pub height: u32,
    pub subtrees: u32,
    pub inline_collections: u32,
    pub max_subtree_height: u32,
    pub pages: Vec<PageKey>,
    pub shortened_separators: u32,
}

#[derive(Clone, Debug, Default)]
pub struct Forest {
    pub tables: BTreeMap<String, DecodedTable>,
    pub system: BTreeMap<String, DecodedTable>,
    pub data_pages: BTreeSet<PageKey>,
    pub system_pages: BTreeSet<PageKey>,
    /// page lists recorded in the system tree
    pub data_freed: Vec<(u64, Vec<PageKey>)>,
    pub system_freed: Vec<(u64, Vec<PageKey>)>,
    pub data_allocated: Vec<(u64, Vec<PageKey>)>,
    /// persistent savepoints: id -> (transaction id, data root)
    pub savepoints: BTreeMap<u64, (u64, Option<Root>)>,
    pub next_savepoint_id: Option<u64>,
    pub allocator_state_txn: Option<u64>,
    /// region -> allocated order-0 pages, decoded from the saved allocator state (if present)
    pub saved_allocators: BTreeMap<u32, (u32, Vec<u32>)>,
    pub max_height: u32,
    pub covered: BTreeMap<PageKey, usize>,
}

fn parse_page_list(v: &[u8]) -> Result<Vec<PageKey>, String> {
    let n = u16le(v, 0).ok_or("page list shorter than its count")? as usize;
    let mut out = vec![];
    for i in 0..n {
        out.push(page_number(u64le(v, 2 + 8 * i).ok_or_else(|| format!("page list claims {n} entries but has {} bytes", v.len()))?));
    }
    Ok(out)
}

/// decode one bitmap tree ("BtreeBitmap"): returns the bits of the last level
fn parse_bitmap(b: &[u8]) -> Result<Vec<bool>, String> {
    let height = u32le(b, 0).ok_or("bitmap height")? as usize;
    if height == 0 || height > 16 {
        return Err(format!("bitmap height {height}"));
    }
    let mut ends = vec![];
    for i in 0..height {
        ends.push(u32le(b, 4 + 4 * i).ok_or("bitmap end offsets")? as usize);
    }
    let data_start = 4 + 4 * height;
    let last_start = if height >= 2 { ends[height - 2] } else { data_start };
    let last_end = ends[height - 1];
    let lvl = b.get(last_start..last_end).ok_or("bitmap last level out of range")?;
    let nbits = u32le(lvl, 0).ok_or("bitmap level length")? as usize;
    let mut bits = Vec::with_capacity(nbits);
    for i in 0..nbits {
        let w = u64le(lvl, 4 + 8 * (i / 64)).ok_or("bitmap words")?;
        bits.push(w >> (i % 64) & 1 == 1);
    }
    Ok(bits)
}

/// decode a serialized buddy allocator into (len, allocated order-0 pages)
pub fn parse_buddy(b: &[u8]) -> Result<(u32, Vec<u32>), String> {
    let max_order = *b.first().ok_or("empty allocator")? as usize;
    let len = u32le(b, 4).ok_or("allocator length")?;
    let mut ends = vec![];
    for i in 0..=max_order {
        ends.push(u32le(b, 8 + 4 * i).ok_or("allocator end offsets")? as usize);
    }
    let mut free = vec![false; len as usize];
    let mut start = 8 + 4 * (max_order + 1);
    for (order, end) in ends.iter().enumerate() {
        let bits = parse_bitmap(b.get(start..*end).ok_or("allocator bitmap range")?)?;
        for (i, set) in bits.iter().enumerate() {
            if !*set {
                // clear bit = block i of 2^order pages is free
                let s = i << order;
                let e = ((i + 1) << order).min(len as usize);
                for f in free.iter_mut().take(e).skip(s) {
                    *f = true;
                }
            }
        }
        start = *end;
    }
    Ok((len, free.iter().enumerate().filter(|(_, f)| !**f).map(|(i, _)| i as u32).collect()))
}

/// Decode the whole forest reachable from (data root, system root)
pub fn decode_forest(src: &dyn PageSource, data_root: Option<Root>, system_root: Option<Root>, verify_checksums: bool) -> Result<Forest, String> {
    let mut w = Walker::new(src);
    w.verify_checksums = verify_checksums;
    let mut forest = Forest::default();
    let catalog_spec = Spec { fixed_key: None, fixed_val: None, cmp: cmp_bytes };
    for (is_system, root) in [(false, data_root), (true, system_root)] {
        let which = if is_system { "system catalog" } else { "catalog" };
        let cat = w.tree(root, &catalog_spec, which)?;
        forest.max_height = forest.max_height.max(cat.height);
        let mut pages: BTreeSet<PageKey> = cat.pages.iter().copied().collect();
        for (k, v) in &cat.entries {
            let name = String::from_utf8(k.clone()).map_err(|_| format!("{which}: table name is not UTF-8"))?;
            let def = parse_table_def(v, &name)?;
            if def.key_align != 1 || def.val_align != 1 {
                return Err(format!("table {name:?}: alignment fields are {}/{}, expected 1", def.key_align, def.val_align));
            }
            let cmp = cmp_for(&def.key_type).ok_or_else(|| format!("table {name:?}: no comparator for key type {:?}", def.key_type))?;
            let what = format!("table {name:?}");
            let mut dt = DecodedTable { def: def.clone(), contents: TableContents::Normal(vec![]), height: 0, subtrees: 0, inline_collections: 0, max_subtree_height: 0, pages: vec![], shortened_separators: 0 };
            if !def.multimap {
                let spec = Spec { fixed_key: def.fixed_key, fixed_val: def.fixed_val, cmp };
                let t = w.tree(def.root, &spec, &what)?;
                if t.entries.len() as u64 != def.table_length {
                    return Err(format!("{what}: stored table length {} but {} entries are present", def.table_length, t.entries.len()));
                }
                dt.height = t.height;
                dt.pages = t.pages.clone();
                dt.shortened_separators = t.shortened_separators;
                dt.contents = TableContents::Normal(t.entries);
            } else {
                let vcmp = cmp_for(&def.val_type).ok_or_else(|| format!("{what}: no comparator for value type {:?}", def.val_type))?;
                let spec = Spec { fixed_key: def.fixed_key, fixed_val: None, cmp };
                let t = w.tree(def.root, &spec, &what)?;
                dt.height = t.height;
                dt.pages = t.pages.clone();
                dt.shortened_separators = t.shortened_separators;
                let vspec = Spec { fixed_key: def.fixed_val, fixed_val: Some(0), cmp: vcmp };
                let mut out = vec![];
                let mut total = 0u64;
                for (k, coll) in t.entries {
                    let vals: Vec<Vec<u8>> = match coll.first() {
                        Some(1) => {
                            dt.inline_collections += 1;
                            let leaf = parse_leaf(&coll[1..], def.fixed_val, Some(0), &format!("{what}: inline collection"))?;
                            let mut vs: Vec<Vec<u8>> = vec![];
                            for i in 0..leaf.n {
                                let v = coll[1 + leaf.keys[i].0..1 + leaf.keys[i].1].to_vec();
                                if let Some(p) = vs.last()
                                    && vcmp(p, &v) != Ordering::Less
                                {
                                    return Err(format!("{what}: inline collection values are not strictly increasing"));
                                }
                                vs.push(v);
                            }
                            vs
                        }
                        Some(3) => {
                            dt.subtrees += 1;
                            let r = parse_root(coll.get(1..33).ok_or_else(|| format!("{what}: subtree header truncated"))?).unwrap();
                            let st = w.tree(Some(r), &vspec, &format!("{what}: value subtree"))?;
                            dt.max_subtree_height = dt.max_subtree_height.max(st.height);
                            dt.pages.extend(st.pages.iter().copied());
                            st.entries.into_iter().map(|(k, _)| k).collect()
                        }
                        t => return Err(format!("{what}: dynamic collection type byte {t:?}")),
                    };
                    if vals.is_empty() {
                        return Err(format!("{what}: a key with an empty value collection is stored"));
                    }
                    total += vals.len() as u64;
                    out.push((k, vals));
                }
                if total != def.table_length {
                    return Err(format!("{what}: stored table length {} but {total} pairs are present", def.table_length));
                }
                dt.contents = TableContents::Multimap(out);
            }
            forest.max_height = forest.max_height.max(dt.height + dt.max_subtree_height);
            pages.extend(dt.pages.iter().copied());
            if is_system {
                forest.system.insert(name, dt);
            } else {
                forest.tables.insert(name, dt);
            }
        }
        if is_system {
            forest.system_pages = pages;
        } else {
            forest.data_pages = pages;
        }
    }
    // interpret the system tables
    for (name, t) in &forest.system {
        let TableContents::Normal(entries) = &t.contents else { continue };
        match name.as_str() {
            "data_pages_unreachable" | "system_pages_unreachable" | "data_pages_allocated" => {
                let mut lists = vec![];
                for (k, v) in entries {
                    lists.push((u64le(k, 0).unwrap_or(0), parse_page_list(v).map_err(|e| format!("{name}: {e}"))?));
                }
                match name.as_str() {
                    "data_pages_unreachable" => forest.data_freed = lists,
                    "system_pages_unreachable" => forest.system_freed = lists,
                    _ => forest.data_allocated = lists,
                }
            }
            "persistent_savepoints" => {
                for (k, v) in entries {
                    if v.len() != 50 || v[0] != 3 {
                        return Err(format!("persistent savepoint record has {} bytes / version {:?}", v.len(), v.first()));
                    }
                    let id = u64le(k, 0).unwrap_or(0);
                    if u64le(v, 1) != Some(id) {
                        return Err(format!("persistent savepoint record under key {id} names id {:?}", u64le(v, 1)));
                    }
                    let root = if v[17] != 0 { parse_root(&v[18..50]) } else { None };
                    forest.savepoints.insert(id, (u64le(v, 9).unwrap(), root));
                }
            }
            "next_savepoint_id" => {
                forest.next_savepoint_id = entries.first().and_then(|(_, v)| u64le(v, 0));
            }
            "allocator_state" => {
                for (k, v) in entries {
                    match k.first() {
                        Some(3) => {
                            let region = u32le(k, 1).unwrap_or(0);
                            forest.saved_allocators.insert(region, parse_buddy(v).map_err(|e| format!("saved allocator of region {region}: {e}"))?);
                        }
                        Some(5) => forest.allocator_state_txn = u64le(v, 0),
                        _ => {}
                    }
                }
            }
            _ => {}
        }
    }
    forest.covered = w.covered;
    Ok(forest)
}

/// order-0 coverage of a set of pages: (region, order-0 index)
pub fn order0(pages: impl IntoIterator<Item = PageKey>) -> Result<BTreeSet<(u32, u32)>, String> {
    let mut s = BTreeSet::new();
    for p in pages {
        let start = p.1 << p.2;
        for i in start..start + (1u32 << p.2) {
            if !s.insert((p.0, i)) {
                return Err(format!("page {p:?} overlaps another page of the same list (order-0 page {i})"));
            }
        }
    }
    Ok(s)
}
