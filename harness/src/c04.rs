//! C04: a table behaves as an ordered map (engine `tableops`)

use crate::backend::RecBackend;
use crate::driver::{CaseOut, Check, Failure, Plan, Tier};
use crate::genr::DbCfg;
use crate::mv::*;
use crate::tableops::*;
use crate::tape::{Fnv, Rec, Tape};
use crate::{io, sensure, sfail};
use redb::{ReadableDatabase, ReadableTableMetadata, TableDefinition};
use serde_json::{Value, json};

pub struct C04;

pub const FAMS: [(Ty, Ty); 6] = [
    (Ty::U64, Ty::Bytes),
    (Ty::Str, Ty::Bytes),
    (Ty::Bytes, Ty::U64),
    (Ty::TupU32Str, Ty::Bytes),
    (Ty::ArrStr2, Ty::Unit),
    (Ty::U64, Ty::U64),
];

#[derive(Clone, Debug)]
pub enum Step {
    Op(TOp),
    Commit,
    CommitReopen,
    Abort,
}

pub struct Case {
    pub cfg: DbCfg,
    pub kty: Ty,
    pub vty: Ty,
    pub universe: usize,
    pub steps: Vec<Step>,
}

pub fn decode(tape: &Tape) -> Case {
    let c = &tape.cfg;
    let cfg = DbCfg::decode(c[0], c[1], c[2]);
    let (kty, vty) = FAMS[crate::tape::idx8(c[3], FAMS.len())];
    let universe = [64usize, 16, 200, 512][(c[4] % 4) as usize];
    let mut steps = vec![];
    for (i, rec) in tape.recs.iter().enumerate() {
        let mut r = Rec::new(rec);
        let ctl = r.u8();
        let step = match ctl {
            0..=229 => {
                let tag = ((i as u64) << 20) | u64::from(rec[10]) << 8 | u64::from(rec[11]);
                Step::Op(decode_top(&mut r, kty, vty, &cfg, universe, tag, false))
            }
            230..=243 => Step::Commit,
            244..=251 => Step::CommitReopen,
            _ => Step::Abort,
        };
        steps.push(step);
    }
    Case {
        cfg,
        kty,
        vty,
        universe,
        steps,
    }
}

fn run_typed<KF: KeyFam, VF: ValFam>(case: &Case, out: &mut CaseOut) -> R {
    let def: TableDefinition<KF::T, VF::T> = TableDefinition::new("t");
    let backend = RecBackend::new(false);
    let mut db = match case.cfg.builder().create_with_backend(backend.clone()) {
        Ok(db) => db,
        Err(e) => sfail!("create", "create failed: {e:?}"),
    };
    let mut committed: TModel = TModel::new();
    let mut model = committed.clone();
    let mut st = TStats::default();
    let mut i = 0;
    let mut reopened = 0u32;
    let mut commits = 0u32;
    while i < case.steps.len() {
        // one transaction: consume ops until a control step
        let txn = match db.begin_write() {
            Ok(t) => t,
            Err(e) => sfail!("begin_write", "begin_write failed: {e:?}"),
        };
        let mut ctl: Option<Step> = None;
        {
            let mut t = match txn.open_table(def) {
                Ok(t) => t,
                Err(e) => sfail!("open_table", "open_table failed: {e:?}"),
            };
            while i < case.steps.len() {
                match &case.steps[i] {
                    Step::Op(op) => {
                        apply_top::<KF, VF>(&mut t, &mut model, op, &mut st)?;
                        if op.mutates() {
                            st.observe(&io!(t.stats()));
                        }
                        i += 1;
                    }
                    c => {
                        ctl = Some(c.clone());
                        i += 1;
                        break;
                    }
                }
            }
            // end-of-transaction oracle: complete contents in both directions
            full_compare::<KF, VF, _>(&t, &model)?;
        }
        match ctl.unwrap_or(Step::Commit) {
            Step::Abort => {
                io!(txn.abort());
                model = committed.clone();
            }
            s => {
                if let Err(e) = txn.commit() {
                    sfail!("commit", "commit failed: {e:?}");
                }
                commits += 1;
                committed = model.clone();
                if matches!(s, Step::CommitReopen) {
                    drop(db);
                    reopened += 1;
                    db = match case.cfg.builder().create_with_backend(backend.reopen_handle()) {
                        Ok(db) => db,
                        Err(e) => sfail!("reopen", "reopen after clean close failed: {e:?}"),
                    };
                }
            }
        }
        // committed state as seen by a fresh read transaction
        let rt = match db.begin_read() {
            Ok(t) => t,
            Err(e) => sfail!("begin_read", "begin_read failed: {e:?}"),
        };
        match rt.open_table(def) {
            Ok(t) => {
                full_compare::<KF, VF, _>(&t, &committed)?;
                st.observe(&io!(t.stats()));
            }
            Err(redb::TableError::TableDoesNotExist(_)) if commits == 0 => {}
            Err(e) => sfail!("ro-open", "open_table in read transaction failed: {e:?}"),
        }
    }
    // a table-level bug that corrupts what is stored without changing what the API returns
    // (a stale checksum, a wrong count) shows up here: clean close, reopen, integrity check
    drop(db);
    let mut db = match case.cfg.builder().create_with_backend(backend.reopen_handle()) {
        Ok(db) => db,
        Err(e) => sfail!("reopen", "final reopen failed: {e:?}"),
    };
    match db.check_integrity() {
        Ok(true) => {}
        r => sfail!("final-check-integrity", "check_integrity() after the case returned {r:?}"),
    }
    if commits > 0 {
        let rt = match db.begin_read() {
            Ok(t) => t,
            Err(e) => sfail!("begin_read", "begin_read failed: {e:?}"),
        };
        match rt.open_table(def) {
            Ok(t) => full_compare::<KF, VF, _>(&t, &committed)?,
            Err(e) => sfail!("ro-open", "open_table after the final reopen failed: {e:?}"),
        }
    }
    drop(db);
    let v = backend.monitor_violations();
    sensure!(v.is_empty(), "backend-contract", "backend contract violated: {:?}", v);

    // classification
    let variable = KF::T::fixed_width_is_none();
    let nontrivial = st.max_height >= 2 && st.splits >= 1 && st.merges >= 1;
    if nontrivial {
        let mut h = Fnv::new();
        h.write_u64(st.max_height as u64);
        h.write_u64(st.splits as u64);
        h.write_u64(st.merges as u64);
        h.write_u64(st.ops as u64);
        h.write_u64(committed.len() as u64);
        for (k, v) in committed.iter().take(8) {
            k.hash_into(&mut h);
            v.hash_into(&mut h);
        }
        h.write_str(KF::NAME);
        h.write_u64(case.cfg.page_size as u64);
        out.nontrivial.push(h.finish());
        out.class("nontrivial(height>=2,split,merge)");
        if variable {
            out.class("nontrivial/variable-width-key");
        }
    }
    if st.max_height >= 3 {
        out.class("height>=3");
    }
    if st.big_values > 0 {
        out.class("has-value>=4KiB");
    }
    if reopened > 0 {
        out.class("with-reopen");
    }
    if case.cfg.cache_size == 0 {
        out.class("cache=0");
    }
    out.classes.push(match case.cfg.page_size {
        512 => ("page=512", 1),
        1024 => ("page=1024", 1),
        2048 => ("page=2048", 1),
        4096 => ("page=4096", 1),
        8192 => ("page=8192", 1),
        _ => ("page=16384", 1),
    });
    Ok(())
}

trait FixedWidthProbe {
    fn fixed_width_is_none() -> bool;
}
impl<T: redb::Value> FixedWidthProbe for T {
    fn fixed_width_is_none() -> bool {
        T::fixed_width().is_none()
    }
}

#[macro_export]
macro_rules! dispatch_kv {
    ($kty:expr, $vty:expr, $f:ident, ($($arg:expr),*)) => {
        match ($kty, $vty) {
            (Ty::U64, Ty::Bytes) => $f::<FU64, FBytes>($($arg),*),
            (Ty::U64, Ty::U64) => $f::<FU64, FU64>($($arg),*),
            (Ty::Str, Ty::Bytes) => $f::<FStr, FBytes>($($arg),*),
            (Ty::Str, Ty::U64) => $f::<FStr, FU64>($($arg),*),
            (Ty::Bytes, Ty::U64) => $f::<FBytes, FU64>($($arg),*),
            (Ty::Bytes, Ty::Bytes) => $f::<FBytes, FBytes>($($arg),*),
            (Ty::TupU32Str, Ty::Bytes) => $f::<FTupU32Str, FBytes>($($arg),*),
            (Ty::ArrStr2, Ty::Unit) => $f::<FArrStr2, FUnit>($($arg),*),
            (k, v) => panic!("harness: no dispatch for ({k:?},{v:?})"),
        }
    };
}

impl Check for C04 {
    fn id(&self) -> &'static str {
        "C04"
    }
    fn rule(&self) -> String {
        "tapes (cfg record + <=N op records) from a seeded proptest runner decode to one table of one of 6 key/value families under a random page/region/cache size; every return value and a full forward+backward scan are compared with a BTreeMap after every transaction (and after reopen). Non-trivial: tree height >= 2 AND page count rose (split) AND fell (merge) during the case; distinct by hash of (shape counters, final contents prefix, family, page size)".into()
    }
    fn assumptions(&self) -> Vec<String> {
        vec![
            "values are at most region/4 bytes (an allocation must fit a region; real regions are 4 GiB)".into(),
            "model order is Rust Ord of the key value (C15 checks that redb's byte comparators agree)".into(),
        ]
    }
    fn fuzz_runs(&self) -> u64 {
        400_000
    }
    fn plan(&self, tier: Tier) -> Plan {
        Plan {
            cases: tier.pick(50_000, 1_500_000),
            max_recs: 160,
            max_shrink_iters: 4000,
            workers: 16,
        }
    }
    fn run(&self, tape: &Tape, want_sample: bool) -> Result<CaseOut, Failure> {
        let case = decode(tape);
        let mut out = CaseOut {
            evals: 1,
            ..Default::default()
        };
        let r = dispatch_kv!(case.kty, case.vty, run_typed, (&case, &mut out));
        r.map_err(stop_to_failure)?;
        if want_sample {
            out.sample = Some(self.render(tape));
        }
        Ok(out)
    }
    fn render(&self, tape: &Tape) -> Value {
        let case = decode(tape);
        let steps: Vec<String> = case.steps.iter().take(60).map(|s| format!("{s:?}")).collect();
        json!({
            "config": case.cfg.json(),
            "key_type": case.kty.name(),
            "value_type": case.vty.name(),
            "universe": case.universe,
            "n_steps": case.steps.len(),
            "steps(first 60)": steps,
        })
    }
}
