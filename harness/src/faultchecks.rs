//! C08: storage errors never corrupt or silently lose data (fault injection at every backend
//! call index, permanent or once, then crash states at drop, then reopen)

use crate::backend::{FaultMode, LogOp};
use crate::crash::*;
use crate::driver::{CaseOut, Check, Failure, Plan, Tier, catch, normalize_sig};
use crate::hist::*;
use crate::tape::{Fnv, Tape};
use serde_json::{Value, json};
use std::sync::Arc;

pub struct C08;

fn profile(_tape: &Tape) -> Profile {
    let mut p = Profile::base();
    p.w_begin = 14;
    p.w_commit = 30;
    p.nondurable = 70;
    p.w_reopen = 3;
    p.w_compact = 1;
    p.w_check = 1;
    p.w_sp_pers = 3;
    p.w_restore = 2;
    p.w_rename = 3;
    p.w_delete_table = 3;
    p.w_begin_read = 3;
    p.w_reader_probe = 4;
    p.mismatch = 0;
    p.key_universe = 48;
    p.verify_each_commit = true;
    p
}

fn tier_of_env() -> Tier {
    match std::env::var("VERIF_TIER_INTERNAL").ok().as_deref() {
        Some("thorough") => Tier::Thorough,
        _ => Tier::Quick,
    }
}

#[derive(Default)]
struct FaultOut {
    runs: u64,
    surfaced_runs: u64,
    never_surfaced: u64,
    refused_writes: u64,
    reopen_states: u64,
    failed_open_runs: u64,
    nontrivial: Vec<u64>,
    by_kind: std::collections::BTreeMap<&'static str, u64>,
    last_trace: Option<Vec<String>>,
}

struct FaultDesc {
    k: u64,
    mode: FaultMode,
    phase: &'static str,
}

/// one faulty execution of the tape
fn run_one(tape: &Tape, k_abs: u64, mode: FaultMode, trace: bool, fo: &mut FaultOut, phase: &'static str, tables_in_commit: usize) -> Result<Option<Vec<String>>, Failure> {
    let cfg = decode_cfg(tape);
    let mut m = Machine::new(cfg, profile(tape), true, trace).map_err(stop_failure)?;
    let r = run_one_inner(&mut m, tape, k_abs, mode, fo, phase, tables_in_commit);
    fo.last_trace = m.trace.take();
    r.map(|()| fo.last_trace.clone())
}

fn run_one_inner(m: &mut Machine, tape: &Tape, k_abs: u64, mode: FaultMode, fo: &mut FaultOut, phase: &'static str, tables_in_commit: usize) -> Result<(), Failure> {
    m.fault_mode = true;
    m.backend.set_fault(Some((k_abs, mode)));
    for rec in &tape.recs {
        if !m.exec_fault(rec)? {
            break;
        }
    }
    // end of the history: close whatever is open without further checks
    if m.db.is_some() {
        if m.w.is_some() {
            match m.commit() {
                Ok(()) => {}
                Err(crate::tableops::Stop::Fail(f)) => return Err(f),
                Err(crate::tableops::Stop::Io(e)) => m.on_io_error(&e)?,
            }
        }
        m.drop_all_handles();
        m.w = None;
        let (d, r) = (m.d, m.commits.len() - 1);
        m.backend.mark(d, r, "close");
        let db = m.db.take();
        if let Err(p) = catch(|| drop(db)) {
            return Err(Failure::new(format!("panic:{}", normalize_sig(&p)), format!("panic dropping the Database after a storage error: {p}")));
        }
        let closes = m.backend.lock().closes;
        if closes != 1 {
            return Err(Failure::new("close-count", format!("close() was called {closes} times when the Database was dropped after an injected fault (expected exactly once)")));
        }
    }
    let fired = m.backend.lock().fault_fired;
    fo.runs += 1;
    if m.surfaced_count > 0 {
        fo.surfaced_runs += 1;
    } else if fired {
        fo.never_surfaced += 1;
    }
    if m.ended_by_failed_open {
        fo.failed_open_runs += 1;
    }
    fo.refused_writes += u64::from(m.writes_refused_after_error);
    *fo.by_kind.entry(phase).or_default() += 1;
    let v = m.backend.monitor_violations();
    if !v.is_empty() {
        return Err(Failure::new("backend-contract", format!("backend contract violated under fault injection: {:?}", &v[..v.len().min(3)])));
    }
    // crash states of the storage at the moment the database was dropped; reopen without faults
    m.backend.set_fault(None);
    let (log, start) = {
        let g = m.backend.lock();
        (g.log.clone(), ())
    };
    let _ = start;
    // durable image + pending writes at the end of the log
    let mut durable: Vec<u8> = vec![];
    let mut pending: Vec<Pend> = vec![];
    for op in &log {
        match op {
            LogOp::Write { off, data } => pending.push(Pend::Write { off: *off, data: Arc::new(data.clone()) }),
            LogOp::SetLen(l) => pending.push(Pend::SetLen(*l)),
            LogOp::Sync => {
                let all = vec![Keep::Keep; pending.len()];
                durable = build_image(&durable, &pending, &all);
                pending.clear();
            }
            _ => {}
        }
    }
    let w = pending.len();
    let mut rng = Rng::new(crate::crashchecks::crash_seed(tape) ^ k_abs.wrapping_mul(0x9E37));
    let mut sets: Vec<Vec<Keep>> = vec![vec![Keep::Keep; w]];
    if w > 0 {
        sets.push(vec![Keep::Drop; w]);
        sets.push((0..w).map(|_| if rng.chance(1, 2) { Keep::Keep } else { Keep::Drop }).collect());
        let mut s = vec![Keep::Keep; w];
        s[rng.below(w)] = Keep::Drop;
        sets.push(s);
    }
    let (d, r) = (m.d, m.commits.len() - 1);
    let cands: Vec<(usize, Arc<DbState>)> = (d..=r).map(|j| (j, m.commits[j].clone())).collect();
    for decisions in sets {
        let img = build_image(&durable, &pending, &decisions);
        fo.reopen_states += 1;
        let res = (|| -> crate::tableops::R {
            let rec = open_image(&m.cfg, img, false)?;
            match_commit_point(&rec.db, &cands)?;
            Ok(())
        })();
        if let Err(s) = res {
            let mut f = crate::tableops::stop_to_failure(s);
            f.msg = format!("after fault k={k_abs} ({mode:?}) and reopening the storage as left at drop ({} of {w} unsynced writes kept): {}", decisions.iter().filter(|k| **k == Keep::Keep).count(), f.msg);
            return Err(f);
        }
    }
    if fired && phase != "idle" && phase != "created" && (tables_in_commit >= 2 || phase == "close" || phase == "open") {
        let mut h = Fnv::new();
        h.write_u64(tape.hash64());
        h.write_u64(k_abs);
        h.write_u64(mode as u64);
        fo.nontrivial.push(h.finish());
    }
    Ok(())
}

fn fault_points(tape: &Tape, tier: Tier) -> Result<(Vec<(u64, FaultMode, &'static str, usize)>, u64), Failure> {
    // dry run: count calls and record phases
    let cfg = decode_cfg(tape);
    let mut m = Machine::new(cfg, profile(tape), true, false).map_err(stop_failure)?;
    let base = m.backend.calls();
    m.run_tape(tape).map_err(stop_failure)?;
    let total = m.backend.calls();
    let marks = m.backend.lock().marks.clone();
    let tables_changed_max = 2usize; // refined below by phase only
    let _ = tables_changed_max;
    // call ranges per mark
    let mut ranges: Vec<(u64, u64, &'static str)> = vec![];
    for (i, mk) in marks.iter().enumerate() {
        let end = marks.get(i + 1).map(|n| n.calls_at).unwrap_or(total);
        if end > mk.calls_at && mk.calls_at >= base {
            ranges.push((mk.calls_at, end, mk.phase));
        }
    }
    let budget = tier.pick(40usize, 400);
    let mut rng = Rng::new(crate::crashchecks::crash_seed(tape));
    let mut pts: Vec<(u64, FaultMode, &'static str, usize)> = vec![];
    let interesting: Vec<&(u64, u64, &'static str)> = ranges.iter().filter(|r| r.2 != "idle").collect();
    let n_calls = total.saturating_sub(base);
    if n_calls == 0 {
        return Ok((pts, 0));
    }
    if (n_calls as usize) * 2 <= budget {
        for k in base..total {
            let ph = ranges.iter().find(|r| r.0 <= k && k < r.1).map(|r| r.2).unwrap_or("idle");
            pts.push((k, FaultMode::Once, ph, 2));
            pts.push((k, FaultMode::Permanent, ph, 2));
        }
    } else {
        while pts.len() < budget {
            let (k, ph) = if !interesting.is_empty() && rng.chance(3, 4) {
                let r = interesting[rng.below(interesting.len())];
                (r.0 + rng.below((r.1 - r.0) as usize) as u64, r.2)
            } else {
                let k = base + rng.below(n_calls as usize) as u64;
                (k, ranges.iter().find(|r| r.0 <= k && k < r.1).map(|r| r.2).unwrap_or("idle"))
            };
            let mode = if rng.chance(1, 2) { FaultMode::Once } else { FaultMode::Permanent };
            pts.push((k, mode, ph, 2));
        }
    }
    Ok((pts, n_calls))
}

impl Check for C08 {
    fn id(&self) -> &'static str {
        "C08"
    }
    fn level(&self) -> &'static str {
        "fault_enumeration"
    }
    fn rule(&self) -> String {
        "hist tapes on the recording backend; a dry run counts the backend calls N after creation (read, write, set_len, sync_data, len) and their phases; then for fault indices k (all k x {once, permanent} when 2N fits the budget, else 3/4 sampled inside commit/abort/close/open/compact/check_integrity windows and 1/4 uniformly) the history is re-executed with the k-th call failing and continued to its end; oracle during the run: no panic, every operation that returns Ok has its modelled effect, held readers read their snapshot or get an error, after an I/O-class error was reported every begin_write() fails until a reopen, a failed open closes the backend exactly once; at the end the Database is dropped, 1-4 crash states over the writes unsynced at drop are built and reopened without faults: contents must equal one commit point S_j, d <= j <= r, where d counts only durable commits that returned Ok and a commit that returned Err is a candidate (wholly present or absent). Non-trivial: fault fired inside a commit/abort/compact/check window or inside close/open; distinct by (tape, k, mode).".into()
    }
    fn assumptions(&self) -> Vec<String> {
        vec![
            "a failing call applies nothing (no partial write) and returns io::Error::other".into(),
            "best-effort writeback failures may legitimately neither surface nor latch; refusal of writes is required only after an error was reported to the caller".into(),
        ]
    }
    fn extra(&self, tier: Tier, seed: u64, acc: &mut crate::driver::Acc) -> Vec<(Failure, Option<Tape>)> {
        // stateful readers (cursors, range iterators) that keep being used after one failed call
        let (st, fails) = crate::c08cursor::run_grid(seed, tier == Tier::Thorough, 16);
        acc.extra.insert(
            "readers_under_one_shot_faults".into(),
            json!({"what": "CursorMut / Cursor / range iterator positioned in a committed multi-leaf table with part of it cached; the k-th backend call from then on fails once; the reader keeps being used: every Ok entry must be exactly the next committed entry, Ok(None) only at the true end (src/c08cursor.rs); grid over reader kind x direction x page size x cache size x warm pattern x k x start",
                "scenarios": st.scenarios, "fault_fired": st.fault_fired, "scenarios_in_which_the_reader_returned_an_error": st.with_error_returned, "entries_returned_ok_after_an_error": st.ok_after_error}),
        );
        let mut out: Vec<(Failure, Option<Tape>)> = fails.into_iter().map(|f| (f, None)).collect();
        // a backend call that fails by panicking inside a write transaction / commit
        let (st, fails) = crate::c08panic::run_grid(seed, tier == Tier::Thorough, 16);
        acc.extra.insert(
            "backend_call_panics".into(),
            json!({"what": "the k-th backend call of a write transaction (body or commit; 1PC, 2PC, non-durable; after durable / non-durable commits) panics, the caller catches it and keeps using the Database: later calls refuse or behave per the model (poisoned-lock panics tolerated and counted), reopen equals an admissible commit point, check_integrity Ok (src/c08panic.rs)",
                "scenarios": st.scenarios, "panic_fired": st.panic_fired, "later_commits_ok": st.later_commits_ok, "later_write_attempts_refused": st.later_refused, "later_panics_naming_a_poisoned_lock": st.poison_panics}),
        );
        out.extend(fails.into_iter().map(|f| (f, None)));
        out
    }
    fn plan(&self, tier: Tier) -> Plan {
        unsafe { std::env::set_var("VERIF_TIER_INTERNAL", tier.name()) };
        Plan { cases: tier.pick(300, 4000), max_recs: tier.pick(60, 90), max_shrink_iters: 200, workers: 16 }
    }
    fn run(&self, tape: &Tape, want_sample: bool) -> Result<CaseOut, Failure> {
        let tier = tier_of_env();
        let (pts, n_calls) = fault_points(tape, tier)?;
        let mut fo = FaultOut::default();
        let mut sample_trace = None;
        for (i, (k, mode, phase, tc)) in pts.iter().enumerate() {
            let tr = want_sample && i == 0;
            let t = run_one(tape, *k, *mode, tr, &mut fo, phase, *tc).map_err(|mut f| {
                f.detail = json!({"fault_call_index": k, "mode": format!("{mode:?}"), "phase": phase, "calls_after_creation": n_calls});
                f.msg = format!("[fault at backend call #{k} ({mode:?}), phase '{phase}'] {}", f.msg);
                f
            })?;
            if tr {
                sample_trace = t;
            }
        }
        let _ = FaultDesc { k: 0, mode: FaultMode::Once, phase: "" }.k;
        let mut out = CaseOut { evals: fo.runs.max(1), ..Default::default() };
        out.nontrivial = fo.nontrivial;
        out.class_n("faulty executions", fo.runs);
        out.class_n("executions in which an I/O error surfaced", fo.surfaced_runs);
        out.class_n("executions in which the injected failure never surfaced (best-effort paths, close)", fo.never_surfaced);
        out.class_n("begin_write refusals observed after a reported error", fo.refused_writes);
        out.class_n("reopened drop-time crash states", fo.reopen_states);
        out.class_n("executions ended by a failing open", fo.failed_open_runs);
        for (k, n) in fo.by_kind {
            let label: &'static str = match k {
                "commit" => "faults in phase commit",
                "idle" => "faults in phase idle",
                "abort" => "faults in phase abort",
                "close" => "faults in phase close",
                "open" => "faults in phase open",
                "compact" => "faults in phase compact",
                "check_integrity" => "faults in phase check_integrity",
                _ => "faults in other phases",
            };
            out.class_n(label, n);
        }
        if want_sample {
            out.sample = Some(json!({"config": decode_cfg(tape).json(), "backend_calls_after_creation": n_calls, "fault_points": pts.len(), "first_faulty_run": pts.first().map(|p| format!("call #{} {:?} in phase {}", p.0, p.1, p.2)), "ops_of_first_faulty_run": sample_trace}));
        }
        Ok(out)
    }
    fn render(&self, tape: &Tape) -> Value {
        let tier = tier_of_env();
        let mut v = json!({"config": decode_cfg(tape).json()});
        if let Ok((pts, n)) = fault_points(tape, tier) {
            v["backend_calls_after_creation"] = json!(n);
            let mut fo = FaultOut::default();
            for (k, mode, phase, tc) in pts {
                match run_one(tape, k, mode, true, &mut fo, phase, tc) {
                    Ok(_) => {}
                    Err(f) => {
                        // re-run for the trace up to the failure
                        v["failing_fault"] = json!({"call_index": k, "mode": format!("{mode:?}"), "phase": phase});
                        v["result"] = json!(f.msg);
                        v["ops_of_failing_run"] = json!(fo.last_trace);
                        break;
                    }
                }
            }
        }
        v
    }
}
