//! `crashsim`: crash-state enumeration over a recorded backend log (DESIGN.md 3.3)

use crate::backend::{LogOp, Mark, RecBackend};
use crate::driver::{Failure, catch, normalize_sig};
use crate::genr::DbCfg;
use crate::hist::{DbState, verify_db_tables};
use crate::tableops::{R, Stop};
use crate::tape::Fnv;
use crate::{io, sensure, sfail};
use redb::{Database, ReadableDatabase};
use std::collections::BTreeSet;
use std::sync::Arc;

/// tiny deterministic PRNG (xorshift*), seeded from the tape: crash sampling stays a pure
/// function of the tape
#[derive(Clone)]
pub struct Rng(u64);
impl Rng {
    pub fn new(seed: u64) -> Rng {
        Rng(seed | 1)
    }
    pub fn next(&mut self) -> u64 {
        let mut x = self.0;
        x ^= x >> 12;
        x ^= x << 25;
        x ^= x >> 27;
        self.0 = x;
        x.wrapping_mul(0x2545F4914F6CDD1D)
    }
    pub fn below(&mut self, n: usize) -> usize {
        if n == 0 { 0 } else { (self.next() >> 33) as usize % n }
    }
    pub fn chance(&mut self, num: u32, den: u32) -> bool {
        (self.next() >> 40) as u32 % den < num
    }
}

#[derive(Clone, Debug)]
pub enum Pend {
    Write { off: u64, data: Arc<Vec<u8>> },
    SetLen(u64),
}

/// decision for one pending operation
#[derive(Clone, Copy, Debug, PartialEq, Eq, Hash)]
pub enum Keep {
    Drop,
    Keep,
    /// keep bytes [a, b) of a write only
    Part(u32, u32),
}

#[derive(Clone, Debug)]
pub struct CrashDesc {
    pub log_index: usize,
    pub pending: usize,
    pub decisions: Vec<Keep>,
    pub phase: &'static str,
    pub d: usize,
    pub r: usize,
    pub nested: Option<Box<CrashDesc>>,
}

impl CrashDesc {
    pub fn json(&self) -> serde_json::Value {
        let dec: String = self
            .decisions
            .iter()
            .map(|k| match k {
                Keep::Drop => "-".to_string(),
                Keep::Keep => "K".to_string(),
                Keep::Part(a, b) => format!("[{a}..{b})"),
            })
            .collect::<Vec<_>>()
            .join("");
        serde_json::json!({
            "crash_after_log_index": self.log_index,
            "phase": self.phase,
            "pending_ops_since_last_sync": self.pending,
            "decisions(in log order: K kept, - dropped, [a..b) torn)": dec,
            "window": format!("S{}..=S{}", self.d, self.r),
            "nested_crash_in_recovery": self.nested.as_ref().map(|n| n.json()),
        })
    }
}

pub fn build_image(durable: &[u8], pending: &[Pend], decisions: &[Keep]) -> Vec<u8> {
    let mut img = durable.to_vec();
    for (p, k) in pending.iter().zip(decisions) {
        match (p, k) {
            (_, Keep::Drop) => {}
            (Pend::SetLen(l), _) => img.resize(*l as usize, 0),
            (Pend::Write { off, data }, k) => {
                let (a, b) = match k {
                    Keep::Part(a, b) => (*a as usize, (*b as usize).min(data.len())),
                    _ => (0, data.len()),
                };
                if a >= b {
                    continue;
                }
                let start = *off as usize + a;
                let end = (*off as usize + b).min(img.len());
                if start < end {
                    img[start..end].copy_from_slice(&data[a..a + (end - start)]);
                }
            }
        }
    }
    img
}

#[derive(Clone, Debug)]
pub struct CrashCfg {
    pub max_states: usize,
    pub exhaustive_w: usize,
    pub per_instant: usize,
    pub nested_depth: u8,
    pub nested_states: usize,
    /// also demand check_integrity()==Ok(true) twice and unchanged contents after recovery (C11)
    pub check_integrity: bool,
    /// after recovery run a small continuation workload and re-verify (C11 "writing after a reopen")
    pub continue_writes: bool,
    /// only explore instants whose phase is in this list (empty = all)
    pub phases: &'static [&'static str],
}

#[derive(Default, Debug)]
pub struct CrashOut {
    pub states: u64,
    pub nested_states: u64,
    pub nontrivial: Vec<u64>,
    pub instants: u64,
    pub exhaustive_instants: u64,
    pub by_phase: std::collections::BTreeMap<&'static str, u64>,
    pub recovered_to_d: u64,
    pub recovered_to_r: u64,
    pub recovered_between: u64,
    pub torn_states: u64,
    pub setlen_dropped_states: u64,
    pub max_w: usize,
}

pub struct Recovered {
    pub db: Database,
    pub backend: RecBackend,
}

/// Open a crash image; any failure to open is a violation of C01 ("reopening the file succeeds")
pub fn open_image(cfg: &DbCfg, image: Vec<u8>, record: bool) -> R<Recovered> {
    let backend = RecBackend::from_image(image, record);
    let b2 = backend.clone();
    match catch(|| cfg.builder().create_with_backend(b2)) {
        Ok(Ok(db)) => Ok(Recovered { db, backend }),
        Ok(Err(e)) => sfail!("crash-open-failed", "reopening after the crash failed: {e:?}"),
        Err(p) => sfail!(format!("panic:{}", normalize_sig(&p)), "panic while reopening after a crash: {p}"),
    }
}

pub fn list_psp(db: &Database) -> R<BTreeSet<u64>> {
    let txn = match db.begin_write() {
        Ok(t) => t,
        Err(e) => return Err(Stop::Io(format!("begin_write: {e:?}"))),
    };
    let listed: BTreeSet<u64> = io!(txn.list_persistent_savepoints()).collect();
    io!(txn.abort());
    Ok(listed)
}

/// Which commit point in `cands` (index, state) does the database hold? Newest first.
pub fn match_commit_point(db: &Database, cands: &[(usize, Arc<DbState>)]) -> R<usize> {
    let mut first_err: Option<Failure> = None;
    let psp = list_psp(db)?;
    for (j, st) in cands.iter().rev() {
        let exp: BTreeSet<u64> = st.psp.keys().copied().collect();
        if exp != psp {
            if first_err.is_none() {
                first_err = Some(Failure::new("crash-savepoints", format!("persistent savepoints {psp:?} differ from S{j}'s {exp:?}")));
            }
            continue;
        }
        match verify_db_tables(db, &st.tables) {
            Ok(()) => return Ok(*j),
            Err(Stop::Fail(f)) => {
                if f.signature.starts_with("panic:") {
                    return Err(Stop::Fail(f));
                }
                if first_err.is_none() {
                    first_err = Some(Failure::new(f.signature.clone(), format!("vs S{j}: {}", f.msg)));
                }
            }
            Err(e) => return Err(e),
        }
    }
    let f = first_err.unwrap_or_else(|| Failure::new("crash-no-candidate", "no candidate commit point"));
    let lo = cands.first().map(|c| c.0).unwrap_or(0);
    let hi = cands.last().map(|c| c.0).unwrap_or(0);
    Err(Stop::Fail(Failure::new(
        "crash-state-not-a-commit-point",
        format!("recovered contents equal none of the commit points S{lo}..=S{hi} (last acknowledged durable .. last requested); nearest mismatch: {}", f.msg),
    )))
}

/// restore every persistent savepoint of the matched commit point in a scratch transaction and
/// compare with its captured state (the transaction is aborted)
pub fn verify_savepoints_restorable(db: &Database, st: &DbState) -> R {
    for (id, p) in &st.psp {
        let mut txn = match db.begin_write() {
            Ok(t) => t,
            Err(e) => return Err(Stop::Io(format!("begin_write: {e:?}"))),
        };
        let sp = match txn.get_persistent_savepoint(*id) {
            Ok(s) => s,
            Err(e) => sfail!("crash-savepoint-lost", "persistent savepoint {id} is listed after recovery but get_persistent_savepoint failed: {e:?}"),
        };
        if let Err(e) = txn.restore_savepoint(&sp) {
            sfail!("crash-savepoint-restore", "persistent savepoint {id} cannot be restored after recovery: {e:?}");
        }
        // read through the write transaction is awkward; commit is not wanted. Compare via the
        // table list only (cheap) -- full comparison is done by the non-crash C07 check
        let n: Vec<String> = io!(txn.list_tables()).map(|h| redb::TableHandle::name(&h).to_string()).collect();
        let m: Vec<String> = io!(txn.list_multimap_tables()).map(|h| redb::MultimapTableHandle::name(&h).to_string()).collect();
        crate::hist::check_lists(&n, &m, &p.captured, "restored savepoint after recovery")?;
        io!(txn.abort());
    }
    Ok(())
}

fn tear_points(off: u64, len: usize, rng: &mut Rng) -> Vec<(u32, u32)> {
    let mut v: Vec<(u32, u32)> = vec![];
    let l = len as u32;
    if off == 0 && len >= 320 {
        // header write: god byte, slots, transaction id, checksum
        for t in [9u32, 10, 64, 64 + 104, 64 + 112, 64 + 120, 192, 192 + 104, 192 + 112, 192 + 120] {
            v.push((0, t));
            v.push((t, l));
        }
        // everything except the god byte / only the god byte
        v.push((10, l));
        v.push((9, 10));
    } else if len > 1 {
        let t = 1 + rng.below(len - 1) as u32;
        v.push((0, t));
        v.push((t, l));
        v.push((0, l / 2));
        if len > 64 {
            let a = rng.below(len - 32) as u32;
            v.push((a, a + 32));
        }
    }
    v
}

pub struct Explorer<'a> {
    pub cfg: &'a DbCfg,
    pub commits: &'a [Arc<DbState>],
    pub ccfg: CrashCfg,
    pub out: CrashOut,
    pub seen_images: BTreeSet<u64>,
}

fn mark_at(marks: &[Mark], idx: usize) -> Option<&Mark> {
    // last mark with at <= idx
    let mut best = None;
    for m in marks {
        if m.at <= idx {
            best = Some(m);
        } else {
            break;
        }
    }
    best
}

fn img_hash(img: &[u8]) -> u64 {
    // hash of the header page + length + sampled bytes (cheap, good enough for distinct counting)
    let mut h = Fnv::new();
    h.write_u64(img.len() as u64);
    h.write(&img[..img.len().min(512)]);
    let mut i = 512;
    while i < img.len() {
        h.write(&img[i..(i + 16).min(img.len())]);
        i += 1021;
    }
    h.finish()
}

impl<'a> Explorer<'a> {
    /// Evaluate one crash state
    fn eval(&mut self, image: Vec<u8>, desc: &CrashDesc, rng: &mut Rng, depth: u8) -> Result<(), Failure> {
        let res = self.eval_inner(image, desc, rng, depth);
        res.map_err(|s| {
            let mut f = crate::tableops::stop_to_failure(s);
            f.detail = desc.json();
            f.msg = format!("{} [crash after log index {} in phase '{}', window S{}..=S{}]", f.msg, desc.log_index, desc.phase, desc.d, desc.r);
            f
        })
    }

    fn eval_inner(&mut self, image: Vec<u8>, desc: &CrashDesc, rng: &mut Rng, depth: u8) -> R {
        self.out.states += 1;
        let record = depth < self.ccfg.nested_depth;
        let cands: Vec<(usize, Arc<DbState>)> = (desc.d..=desc.r.min(self.commits.len() - 1)).map(|j| (j, self.commits[j].clone())).collect();
        let pre_image = if record { Some(image.clone()) } else { None };
        let mut rec = open_image(self.cfg, image, record)?;
        // the recovery run proper ends here: nested crashes are taken inside this part of the log
        let open_log_len = rec.backend.log_len();
        let j = match_commit_point(&rec.db, &cands)?;
        if j == desc.d {
            self.out.recovered_to_d += 1;
        } else if j == desc.r {
            self.out.recovered_to_r += 1;
        } else {
            self.out.recovered_between += 1;
        }
        if self.ccfg.check_integrity {
            for round in 0..2 {
                match catch(|| rec.db.check_integrity()) {
                    Ok(Ok(true)) => {}
                    Ok(Ok(false)) => sfail!("crash-check-integrity-false", "check_integrity() #{round} returned Ok(false) on a database just recovered from a crash"),
                    Ok(Err(e)) => sfail!("crash-check-integrity-error", "check_integrity() #{round} failed on a database just recovered from a crash: {e:?}"),
                    Err(p) => sfail!(format!("panic:{}", normalize_sig(&p)), "panic in check_integrity() after recovery: {p}"),
                }
                let st = self.commits[j].clone();
                verify_db_tables(&rec.db, &st.tables)?;
            }
        }
        if self.ccfg.continue_writes {
            continuation(&rec.db, &self.commits[j])?;
            if self.ccfg.check_integrity {
                match catch(|| rec.db.check_integrity()) {
                    Ok(Ok(true)) => {}
                    Ok(r) => sfail!("crash-continue-check-integrity", "check_integrity() after writing to a recovered database returned {r:?}"),
                    Err(p) => sfail!(format!("panic:{}", normalize_sig(&p)), "panic in check_integrity() after continuation: {p}"),
                }
            }
        }
        let v = rec.backend.monitor_violations();
        sensure!(v.is_empty(), "backend-contract", "backend contract violated during recovery: {:?}", &v[..v.len().min(3)]);
        // nested: crash inside the recovery run itself
        if let Some(pre) = pre_image
            && rng.chance(1, 4)
        {
            drop(rec.db);
            let g = rec.backend.lock();
            let log: Vec<LogOp> = g.log[..open_log_len.min(g.log.len())].to_vec();
            drop(g);
            // recovery may have written nothing (clean image)
            let writes: Vec<usize> = log.iter().enumerate().filter(|(_, o)| matches!(o, LogOp::Write { .. } | LogOp::SetLen(_))).map(|(i, _)| i).collect();
            if !writes.is_empty() {
                let n = self.ccfg.nested_states.min(writes.len());
                for k in 0..n {
                    let wi = writes[if n == writes.len() { k } else { rng.below(writes.len()) }];
                    // durable image + pending at wi within the recovery log
                    let (dur, pend) = replay_to(&pre, &log, wi);
                    let decisions = random_decisions(&pend, rng, k);
                    let img = build_image(&dur, &pend, &decisions);
                    let nd = CrashDesc {
                        log_index: wi,
                        pending: pend.len(),
                        decisions,
                        phase: "recovery",
                        d: desc.d,
                        r: desc.r,
                        nested: None,
                    };
                    let mut outer = desc.clone();
                    outer.nested = Some(Box::new(nd.clone()));
                    self.out.nested_states += 1;
                    self.eval_inner(img, &outer_as_window(&outer, &nd), rng, depth + 1)?;
                }
            }
        }
        Ok(())
    }

    /// Walk the log of a finished history and evaluate crash states
    pub fn explore(&mut self, log: &[LogOp], marks: &[Mark], rng: &mut Rng) -> Result<(), Failure> {
        let created_at = marks.iter().find(|m| m.phase == "created").map(|m| m.at).unwrap_or(0);
        // candidate instants: every state-changing op after creation
        let instants: Vec<usize> = log
            .iter()
            .enumerate()
            .filter(|(i, o)| *i >= created_at && matches!(o, LogOp::Write { .. } | LogOp::SetLen(_)))
            .filter(|(i, _)| {
                self.ccfg.phases.is_empty() || mark_at(marks, *i).is_some_and(|m| self.ccfg.phases.contains(&m.phase))
            })
            .map(|(i, _)| i)
            .collect();
        if instants.is_empty() {
            return Ok(());
        }
        // choose which instants to evaluate under the budget
        let per = self.ccfg.per_instant.max(1);
        let want = (self.ccfg.max_states / per).max(1);
        let chosen: BTreeSet<usize> = if instants.len() <= want {
            instants.iter().copied().collect()
        } else {
            let mut s = BTreeSet::new();
            // always the instants adjacent to set_len and the last write before each sync
            for (k, i) in instants.iter().enumerate() {
                let next_is_sync = log.get(i + 1).is_some_and(|o| matches!(o, LogOp::Sync));
                if (matches!(log[*i], LogOp::SetLen(_)) || next_is_sync) && s.len() < want / 2 {
                    s.insert(*i);
                }
                let _ = k;
            }
            while s.len() < want {
                s.insert(instants[rng.below(instants.len())]);
            }
            s
        };
        // forward walk
        let mut durable: Vec<u8> = vec![];
        let mut live_pending: Vec<Pend> = vec![];
        for (i, op) in log.iter().enumerate() {
            match op {
                LogOp::Write { off, data } => live_pending.push(Pend::Write { off: *off, data: Arc::new(data.clone()) }),
                LogOp::SetLen(l) => live_pending.push(Pend::SetLen(*l)),
                LogOp::Sync => {
                    let all = vec![Keep::Keep; live_pending.len()];
                    durable = build_image(&durable, &live_pending, &all);
                    live_pending.clear();
                }
                _ => {}
            }
            if !chosen.contains(&i) || self.out.states as usize >= 2 * self.ccfg.max_states {
                continue;
            }
            let Some(mark) = mark_at(marks, i) else { continue };
            let w = live_pending.len();
            self.out.instants += 1;
            self.out.max_w = self.out.max_w.max(w);
            *self.out.by_phase.entry(mark.phase).or_default() += 1;
            let mut sets: Vec<Vec<Keep>> = vec![];
            if w <= self.ccfg.exhaustive_w {
                self.out.exhaustive_instants += 1;
                for mask in 0..(1u32 << w) {
                    sets.push((0..w).map(|b| if mask >> b & 1 == 1 { Keep::Keep } else { Keep::Drop }).collect());
                }
            } else {
                sets.push(vec![Keep::Drop; w]);
                sets.push(vec![Keep::Keep; w]);
                // all kept except the in-flight op; only the in-flight op
                let mut s = vec![Keep::Keep; w];
                s[w - 1] = Keep::Drop;
                sets.push(s);
                let mut s = vec![Keep::Drop; w];
                s[w - 1] = Keep::Keep;
                sets.push(s);
                // header writes kept, rest dropped -- and the converse
                let is_hdr: Vec<bool> = live_pending.iter().map(|p| matches!(p, Pend::Write { off: 0, .. })).collect();
                if is_hdr.iter().any(|h| *h) {
                    sets.push(is_hdr.iter().map(|h| if *h { Keep::Keep } else { Keep::Drop }).collect());
                    sets.push(is_hdr.iter().map(|h| if *h { Keep::Drop } else { Keep::Keep }).collect());
                }
                // set_len dropped, writes kept
                if live_pending.iter().any(|p| matches!(p, Pend::SetLen(_))) {
                    sets.push(live_pending.iter().map(|p| if matches!(p, Pend::SetLen(_)) { Keep::Drop } else { Keep::Keep }).collect());
                }
                // single drops / single keeps (sampled)
                for _ in 0..2 {
                    let k = rng.below(w);
                    let mut s = vec![Keep::Keep; w];
                    s[k] = Keep::Drop;
                    sets.push(s);
                    let k = rng.below(w);
                    let mut s = vec![Keep::Drop; w];
                    s[k] = Keep::Keep;
                    sets.push(s);
                }
                for (num, den) in [(1, 10), (1, 2), (9, 10)] {
                    sets.push((0..w).map(|_| if rng.chance(num, den) { Keep::Keep } else { Keep::Drop }).collect());
                }
            }
            // tears of the in-flight write and of one random pending write
            let mut tears: Vec<Vec<Keep>> = vec![];
            for target in [w - 1, rng.below(w)] {
                if let Pend::Write { off, data } = &live_pending[target] {
                    for (a, b) in tear_points(*off, data.len(), rng) {
                        let base = if rng.chance(1, 2) { Keep::Keep } else { Keep::Drop };
                        let mut s: Vec<Keep> = (0..w).map(|i| if i < target { Keep::Keep } else { base }).collect();
                        s[target] = Keep::Part(a, b);
                        tears.push(s);
                    }
                }
            }
            // budget per instant: exhaustive sets are all evaluated; otherwise sample
            let mut todo: Vec<Vec<Keep>> = vec![];
            if w <= self.ccfg.exhaustive_w {
                todo.extend(sets);
                let nt = tears.len().min(per);
                for _ in 0..nt {
                    if !tears.is_empty() {
                        let k = rng.below(tears.len());
                        todo.push(tears.swap_remove(k));
                    }
                }
            } else {
                let mut pool = sets;
                pool.extend(tears);
                // always the first two (none / all), then sample
                let mut first: Vec<Vec<Keep>> = pool.drain(..2).collect();
                todo.append(&mut first);
                while todo.len() < per && !pool.is_empty() {
                    let k = rng.below(pool.len());
                    todo.push(pool.swap_remove(k));
                }
            }
            for decisions in todo {
                let img = build_image(&durable, &live_pending, &decisions);
                let hsh = img_hash(&img);
                let torn = decisions.iter().any(|k| matches!(k, Keep::Part(..)));
                let kept = decisions.iter().filter(|k| !matches!(k, Keep::Drop)).count();
                let dropped = decisions.iter().filter(|k| !matches!(k, Keep::Keep)).count();
                if torn {
                    self.out.torn_states += 1;
                }
                if live_pending.iter().zip(&decisions).any(|(p, k)| matches!(p, Pend::SetLen(_)) && *k == Keep::Drop) {
                    self.out.setlen_dropped_states += 1;
                }
                // non-trivial: >=1 kept and >=1 dropped/torn, inside a window of interest, distinct image
                if kept >= 1 && dropped >= 1 && mark.phase != "idle" && self.seen_images.insert(hsh) {
                    self.out.nontrivial.push(hsh);
                }
                let desc = CrashDesc { log_index: i, pending: w, decisions, phase: mark.phase, d: mark.d, r: mark.r, nested: None };
                self.eval(img, &desc, rng, 0)?;
            }
        }
        Ok(())
    }
}

fn outer_as_window(outer: &CrashDesc, _nested: &CrashDesc) -> CrashDesc {
    outer.clone()
}

/// durable image and pending ops at log index `upto` (inclusive) of a recovery log that started
/// from `start` (which is by construction fully "durable": it is the crash image)
fn replay_to(start: &[u8], log: &[LogOp], upto: usize) -> (Vec<u8>, Vec<Pend>) {
    let mut durable = start.to_vec();
    let mut pending: Vec<Pend> = vec![];
    for (i, op) in log.iter().enumerate() {
        if i > upto {
            break;
        }
        match op {
            LogOp::Write { off, data } => pending.push(Pend::Write { off: *off, data: Arc::new(data.clone()) }),
            LogOp::SetLen(l) => pending.push(Pend::SetLen(*l)),
            LogOp::Sync => {
                let all = vec![Keep::Keep; pending.len()];
                durable = build_image(&durable, &pending, &all);
                pending.clear();
            }
            _ => {}
        }
    }
    (durable, pending)
}

fn random_decisions(pend: &[Pend], rng: &mut Rng, k: usize) -> Vec<Keep> {
    let w = pend.len();
    match k % 4 {
        0 => vec![Keep::Keep; w],
        1 => {
            let mut s = vec![Keep::Keep; w];
            if w > 0 {
                s[w - 1] = Keep::Drop;
            }
            s
        }
        2 => (0..w).map(|_| if rng.chance(1, 2) { Keep::Keep } else { Keep::Drop }).collect(),
        _ => {
            let mut s: Vec<Keep> = vec![Keep::Keep; w];
            if w > 0
                && let Pend::Write { data, .. } = &pend[w - 1]
                && data.len() > 1
            {
                let t = 1 + rng.below(data.len() - 1) as u32;
                s[w - 1] = Keep::Part(0, t);
            }
            s
        }
    }
}

/// Small fixed continuation workload on a recovered database: write to every table, commit,
/// verify everything again. A page that was wrongly considered free would be handed out here.
pub fn continuation(db: &Database, st: &DbState) -> R {
    use crate::dyntab::{AnyOp, OpCtx, TableM, open_held};
    use crate::mmops::MOp;
    use crate::mv::MV;
    use crate::tableops::TOp;
    let mut tables = (*st.tables).clone();
    let txn = match db.begin_write() {
        Ok(t) => t,
        Err(e) => return Err(Stop::Io(format!("begin_write: {e:?}"))),
    };
    let mut ctx = OpCtx::default();
    {
        for (name, tm) in tables.iter_mut() {
            let def = tm.def();
            let mut h = match unsafe { open_held(&txn, name, def) } {
                Ok(h) => h,
                Err(e) => sfail!("crash-continue-open", "opening {name:?} for writing after recovery failed: {e:?}"),
            };
            for i in 0..6u64 {
                let k = crate::genr::key(def.kty, 1000 + i as usize, 512);
                let op = match tm {
                    TableM::N { def, .. } => AnyOp::T(TOp::Insert { k, v: crate::genr::val_of(def.vty, 77 + i, 40 + (i as u8) * 37, 3, 512, 4096) }),
                    TableM::M { def, .. } => AnyOp::M(MOp::Insert { k, v: crate::mmops::mm_val(def.vty, 900 + i, 3, 512) }),
                };
                h.apply(&op, tm, &mut ctx)?;
            }
            drop(h);
        }
        // a new table as well
        if !tables.contains_key("zz-continue") {
            let def = crate::dyntab::DEFS[0];
            let mut tm = TableM::new(def);
            let mut h = match unsafe { open_held(&txn, "zz-continue", def) } {
                Ok(h) => h,
                Err(e) => sfail!("crash-continue-open", "creating a table after recovery failed: {e:?}"),
            };
            for i in 0..40u64 {
                let op = AnyOp::T(TOp::Insert { k: MV::U64(i), v: MV::Bytes(crate::genr::fill(i, 300)) });
                h.apply(&op, &mut tm, &mut ctx)?;
            }
            drop(h);
            tables.insert("zz-continue".to_string(), tm);
        }
    }
    if let Err(e) = txn.commit() {
        sfail!("crash-continue-commit", "commit after recovery failed: {e:?}");
    }
    verify_db_tables(db, &tables)
}
