//! Independent page accounting (C06) and image well-formedness (C10) on top of the decoder

use crate::decoder::*;
use crate::dyntab::TableM;
use crate::hist::Tables;
use crate::mv::MV;
use redb::Database;
use redb::verif::{PageId, Snapshot};
use std::collections::BTreeSet;

pub struct LiveSource<'a> {
    pub db: &'a Database,
    pub snap: &'a Snapshot,
}

impl PageSource for LiveSource<'_> {
    fn page(&self, p: PageKey) -> Result<Vec<u8>, String> {
        self.db.verif_peek_page(PageId { region: p.0, index: p.1, order: p.2 }).map_err(|e| format!("cannot read page {p:?}: {e:?}"))
    }
    fn region_len(&self, r: u32) -> Option<u32> {
        self.snap.regions.get(r as usize).map(|x| x.len)
    }
    fn page_size(&self) -> usize {
        self.snap.page_size as usize
    }
}

pub fn root_of(r: &Option<redb::verif::RootInfo>) -> Option<Root> {
    r.as_ref().map(|x| Root { page: (x.page.region, x.page.index, x.page.order), checksum: x.checksum, length: x.length })
}

fn pk(p: &PageId) -> PageKey {
    (p.region, p.index, p.order)
}

#[derive(Debug, Default, Clone)]
pub struct Accounting {
    pub allocated: usize,
    pub reachable: usize,
    pub pending_free: usize,
    pub pending_free_in_memory: usize,
    pub live_readers: usize,
}

/// A == R u F, each page once. Only meaningful at a transaction boundary.
pub fn account(db: &Database) -> Result<Accounting, String> {
    let snap = db.verif_snapshot();
    if !snap.allocator_state_loaded {
        return Err("allocator state not loaded".into());
    }
    let src = LiveSource { db, snap: &snap };
    let forest = decode_forest(&src, root_of(&snap.data_root), root_of(&snap.system_root), false)?;
    // A
    let mut a: BTreeSet<(u32, u32)> = BTreeSet::new();
    for (r, info) in snap.regions.iter().enumerate() {
        for i in &info.allocated {
            a.insert((r as u32, *i));
        }
    }
    // R (the decoder already refused a page reached twice)
    let r = order0(forest.data_pages.iter().chain(forest.system_pages.iter()).copied())?;
    // F
    let mut f_pages: Vec<PageKey> = vec![];
    for (_, l) in forest.data_freed.iter().chain(forest.system_freed.iter()) {
        f_pages.extend(l.iter().copied());
    }
    let mut mem_f = 0usize;
    for (_, l) in &snap.unpersisted_data_freed {
        for p in l {
            f_pages.push(pk(p));
            mem_f += 1 << p.order;
        }
    }
    let f = order0(f_pages.iter().copied()).map_err(|e| format!("pending-free lists: {e}"))?;
    if let Some(x) = r.intersection(&f).next() {
        return Err(format!("order-0 page {x:?} is both reachable from the current roots and listed as pending free"));
    }
    let union: BTreeSet<(u32, u32)> = r.union(&f).copied().collect();
    if union != a {
        let leaked: Vec<_> = a.difference(&union).take(6).collect();
        let missing: Vec<_> = union.difference(&a).take(6).collect();
        return Err(format!(
            "allocated pages != reachable + pending free: {} allocated, {} reachable, {} pending free; allocated but unaccounted (leak): {leaked:?}; accounted but not allocated (early free): {missing:?}",
            a.len(),
            r.len(),
            f.len()
        ));
    }
    // pages of the last durable commit must stay allocated
    if snap.durable_data_root != snap.data_root || snap.durable_system_root != snap.system_root {
        let df = decode_forest(&src, root_of(&snap.durable_data_root), root_of(&snap.durable_system_root), false).map_err(|e| format!("last durable commit is no longer readable: {e}"))?;
        let dr = order0(df.data_pages.iter().chain(df.system_pages.iter()).copied())?;
        if let Some(x) = dr.difference(&a).next() {
            return Err(format!("order-0 page {x:?} belongs to the last durable commit but is not allocated any more"));
        }
    }
    // pages of every persistent savepoint must stay allocated
    for (id, (_, root)) in &forest.savepoints {
        let sf = decode_forest(&src, *root, None, false).map_err(|e| format!("persistent savepoint {id} is no longer readable: {e}"))?;
        let sr = order0(sf.data_pages.iter().copied())?;
        if let Some(x) = sr.difference(&a).next() {
            return Err(format!("order-0 page {x:?} belongs to persistent savepoint {id} but is not allocated any more"));
        }
    }
    Ok(Accounting { allocated: a.len(), reachable: r.len(), pending_free: f.len(), pending_free_in_memory: mem_f, live_readers: snap.live_read_transactions.len() })
}

pub fn enc_mv(v: &MV) -> Vec<u8> {
    match v {
        MV::Unit => vec![],
        MV::U64(x) => x.to_le_bytes().to_vec(),
        MV::Str(s) => s.as_bytes().to_vec(),
        MV::Bytes(b) => b.clone(),
        _ => panic!("harness: no byte encoder for {v:?}"),
    }
}

/// decoded contents == model contents
pub fn compare_forest(forest: &Forest, tables: &Tables) -> Result<(), String> {
    let names: Vec<&String> = forest.tables.keys().collect();
    let exp: Vec<&String> = tables.keys().collect();
    if names != exp {
        return Err(format!("decoded catalog holds {names:?}, the commit point holds {exp:?}"));
    }
    for (name, tm) in tables.iter() {
        let dt = &forest.tables[name];
        match (tm, &dt.contents) {
            (TableM::N { data, def }, TableContents::Normal(entries)) => {
                if dt.def.multimap || dt.def.key_type != def.kty.name() || dt.def.val_type != def.vty.name() {
                    return Err(format!("table {name:?}: decoded definition {:?}/{:?} multimap={} differs from {}", dt.def.key_type, dt.def.val_type, dt.def.multimap, def.label()));
                }
                let exp: Vec<(Vec<u8>, Vec<u8>)> = data.iter().map(|(k, v)| (enc_mv(k), enc_mv(v))).collect();
                if &exp != entries {
                    return Err(format!("table {name:?}: decoded entries ({}) differ from the commit point ({})", entries.len(), exp.len()));
                }
            }
            (TableM::M { data, def }, TableContents::Multimap(entries)) => {
                if dt.def.key_type != def.kty.name() || dt.def.val_type != def.vty.name() {
                    return Err(format!("multimap {name:?}: decoded definition {:?}/{:?} differs from {}", dt.def.key_type, dt.def.val_type, def.label()));
                }
                let exp: Vec<(Vec<u8>, Vec<Vec<u8>>)> = data.iter().map(|(k, s)| (enc_mv(k), s.iter().map(enc_mv).collect())).collect();
                if &exp != entries {
                    return Err(format!("multimap {name:?}: decoded entries ({} keys) differ from the commit point ({} keys)", entries.len(), exp.len()));
                }
            }
            _ => return Err(format!("table {name:?}: decoded kind differs from the commit point")),
        }
    }
    Ok(())
}

#[derive(Default, Debug, Clone)]
pub struct ImageFacts {
    pub max_height: u32,
    pub subtrees: u32,
    pub inline_collections: u32,
    pub pages: usize,
    pub shortened_separators: u32,
    pub savepoints: usize,
    pub has_saved_allocator_state: bool,
    pub page_set: BTreeSet<PageKey>,
}

/// C10: the image decodes into a well-formed, checksummed forest holding exactly `tables`
pub fn check_image(img: &[u8], tables: &Tables, psp: &BTreeSet<u64>) -> Result<ImageFacts, String> {
    let src = ImageSource::new(img)?;
    let h = &src.header;
    if img.len() as u64 % u64::from(h.page_size) != 0 {
        return Err(format!("file length {} is not a multiple of the page size", img.len()));
    }
    let slot = &h.slots[h.primary];
    if !slot.checksum_ok {
        return Err("the primary commit slot's checksum does not match its bytes".into());
    }
    if slot.version != 3 {
        return Err(format!("primary slot version {}", slot.version));
    }
    if !h.recovery_required && h.layout_len() != img.len() as u64 {
        return Err(format!("stored layout describes {} bytes, the file has {}", h.layout_len(), img.len()));
    }
    let forest = decode_forest(&src, slot.user_root, slot.system_root, true)?;
    compare_forest(&forest, tables)?;
    let ids: BTreeSet<u64> = forest.savepoints.keys().copied().collect();
    if &ids != psp {
        return Err(format!("persistent savepoints in the image {ids:?}, commit point {psp:?}"));
    }
    // every persistent savepoint's tree must itself be well-formed (shares pages with the data tree)
    for (id, (_, root)) in &forest.savepoints {
        decode_forest(&src, *root, None, true).map_err(|e| format!("persistent savepoint {id}: {e}"))?;
    }
    // pending-free lists name pages inside the layout, each once, none reachable
    let mut f_pages: Vec<PageKey> = vec![];
    for (_, l) in forest.data_freed.iter().chain(forest.system_freed.iter()) {
        f_pages.extend(l.iter().copied());
    }
    let f = order0(f_pages.iter().copied()).map_err(|e| format!("pending-free lists: {e}"))?;
    let r = order0(forest.data_pages.iter().chain(forest.system_pages.iter()).copied())?;
    if let Some(x) = r.intersection(&f).next() {
        return Err(format!("order-0 page {x:?} is both reachable and listed as pending free in the committed image"));
    }
    for (reg, idx) in f.iter() {
        if src.region_len(*reg).is_none_or(|l| *idx >= l) {
            return Err(format!("pending-free list names page ({reg},{idx}) outside the layout"));
        }
    }
    // a saved allocator state that claims to belong to this commit must describe exactly R u F
    if h.two_phase
        && let Some(t) = forest.allocator_state_txn
        && t == slot.transaction_id
        && !forest.saved_allocators.is_empty()
    {
        let mut a: BTreeSet<(u32, u32)> = BTreeSet::new();
        for (reg, (_, alloc)) in &forest.saved_allocators {
            for i in alloc {
                a.insert((*reg, *i));
            }
        }
        let union: BTreeSet<(u32, u32)> = r.union(&f).copied().collect();
        if a != union {
            let leaked: Vec<_> = a.difference(&union).take(6).collect();
            let missing: Vec<_> = union.difference(&a).take(6).collect();
            return Err(format!("the saved allocator state of this commit marks {} pages allocated, reachable + pending free is {}; only in the saved state: {leaked:?}; only in the forest: {missing:?}", a.len(), union.len()));
        }
    }
    let mut facts = ImageFacts { max_height: forest.max_height, pages: r.len(), savepoints: ids.len(), ..Default::default() };
    facts.has_saved_allocator_state = forest.allocator_state_txn == Some(slot.transaction_id);
    for t in forest.tables.values() {
        facts.subtrees += t.subtrees;
        facts.inline_collections += t.inline_collections;
        facts.shortened_separators += t.shortened_separators;
    }
    facts.page_set = forest.data_pages.iter().chain(forest.system_pages.iter()).copied().collect();
    Ok(facts)
}
