//! Crash-state checks over recorded histories: C01 (atomic durable commits), C11 (reopen
//! reconstructs the right allocation state)

use crate::crash::*;
use crate::driver::{CaseOut, Check, Failure, Plan, Tier};
use crate::hist::*;
use crate::tape::Tape;
use serde_json::{Value, json};

pub struct CrashCheck {
    pub id: &'static str,
    pub profile: fn(&Tape) -> Profile,
    pub ccfg: fn(Tier) -> CrashCfg,
    pub rule: &'static str,
    pub assumptions: &'static [&'static str],
    pub quick: (u64, usize),
    pub thorough: (u64, usize),
    pub probes: &'static [fn() -> Tape],
}

fn tier_of_env() -> Tier {
    match std::env::var("VERIF_TIER_INTERNAL").ok().as_deref() {
        Some("thorough") => Tier::Thorough,
        _ => Tier::Quick,
    }
}

pub fn crash_seed(tape: &Tape) -> u64 {
    u64::from_le_bytes(tape.cfg[8..16].try_into().unwrap()) ^ 0x9E3779B97F4A7C15
}

/// Run the history with recording, then explore crash states. Returns the machine, crash output.
pub fn run_hist_with_crash(tape: &Tape, profile: Profile, ccfg: CrashCfg, trace: bool, strict: bool) -> (Option<Machine>, Option<CrashOut>, Result<(), Failure>) {
    let cfg = decode_cfg(tape);
    let mut m = match Machine::new(cfg, profile, true, trace) {
        Ok(m) => m,
        Err(s) => return (None, None, Err(stop_failure(s))),
    };
    m.strict = strict;
    if let Err(s) = m.run_tape(tape) {
        return (Some(m), None, Err(stop_failure(s)));
    }
    // end of history: keep the database open (a crash can strike a running process); take the log
    let (log, marks) = {
        let g = m.backend.lock();
        (g.log.clone(), g.marks.clone())
    };
    let mut rng = Rng::new(crash_seed(tape));
    let mut ex = Explorer { cfg: &m.cfg, commits: &m.commits, ccfg, out: CrashOut::default(), seen_images: Default::default() };
    let r = ex.explore(&log, &marks, &mut rng);
    let out = ex.out;
    (Some(m), Some(out), r)
}

pub fn crash_classes(co: &CrashOut, out: &mut CaseOut) {
    out.evals = co.states + co.nested_states;
    out.nontrivial.extend(co.nontrivial.iter().copied());
    out.class_n("crash states evaluated", co.states);
    out.class_n("nested crash states (crash during recovery)", co.nested_states);
    out.class_n("crash instants", co.instants);
    out.class_n("instants with all 2^W subsets enumerated", co.exhaustive_instants);
    out.class_n("states with a torn write", co.torn_states);
    out.class_n("states with a dropped set_len", co.setlen_dropped_states);
    out.class_n("recovered to last acknowledged durable commit", co.recovered_to_d);
    out.class_n("recovered to last requested commit", co.recovered_to_r);
    out.class_n("recovered to a commit point strictly between", co.recovered_between);
    for (p, n) in &co.by_phase {
        let label: &'static str = match *p {
            "commit" => "instants in phase commit",
            "idle" => "instants in phase idle (post-commit epilogue)",
            "abort" => "instants in phase abort",
            "close" => "instants in phase close",
            "open" => "instants in phase open",
            "compact" => "instants in phase compact",
            "check_integrity" => "instants in phase check_integrity",
            "poisoned-commit" => "instants in phase poisoned-commit",
            _ => "instants in other phases",
        };
        out.class_n(label, *n);
    }
}

impl Check for CrashCheck {
    fn id(&self) -> &'static str {
        self.id
    }
    fn level(&self) -> &'static str {
        "fault_enumeration"
    }
    fn rule(&self) -> String {
        self.rule.to_string()
    }
    fn assumptions(&self) -> Vec<String> {
        let mut v: Vec<String> = self.assumptions.iter().map(|s| s.to_string()).collect();
        v.push("crash model (docs/design.md): writes since the last completed sync_data persist in any subset and any byte sub-range; each pending set_len persists or not; a kept write beyond the resulting length is lost".into());
        v.push("crashes during Database creation are outside the quantifier".into());
        v
    }
    fn plan(&self, tier: Tier) -> Plan {
        // the crash budget is selected through an env var because `run` has no tier argument
        unsafe { std::env::set_var("VERIF_TIER_INTERNAL", tier.name()) };
        let (cases, max_recs) = tier.pick(self.quick, self.thorough);
        Plan { cases, max_recs, max_shrink_iters: 400, workers: 16 }
    }
    fn run(&self, tape: &Tape, want_sample: bool) -> Result<CaseOut, Failure> {
        let (m, co, r) = run_hist_with_crash(tape, (self.profile)(tape), (self.ccfg)(tier_of_env()), want_sample, false);
        r?;
        let m = m.unwrap();
        let co = co.unwrap();
        let mut out = CaseOut::default();
        crash_classes(&co, &mut out);
        out.excluded_known = m.excluded_known;
        if m.stats.nd_commits > 0 {
            out.class("history with non-durable commits");
        }
        if m.stats.two_phase_commits > 0 {
            out.class("history with 2PC commits");
        }
        if m.stats.quick_repair_commits > 0 {
            out.class("history with quick-repair commits");
        }
        if m.stats.reopens > 0 {
            out.class("history with a clean reopen");
        }
        if m.stats.compactions_ok > 0 {
            out.class("history with a completed compaction");
        }
        if m.commits.iter().any(|c| !c.psp.is_empty()) {
            out.class("history with persistent savepoints");
        }
        if want_sample {
            out.sample = Some(json!({
                "config": m.cfg.json(),
                "ops": m.trace.as_ref().map(|t| t.iter().take(60).cloned().collect::<Vec<_>>()),
                "commit_points": m.commits.len(),
                "backend_log_ops": m.backend.log_len(),
                "crash_states": co.states,
                "nested": co.nested_states,
                "max_pending_writes_at_a_crash_instant": co.max_w,
            }));
        }
        Ok(out)
    }
    fn extra(&self, tier: Tier, _seed: u64, acc: &mut crate::driver::Acc) -> Vec<(Failure, Option<Tape>)> {
        let mut out = vec![];
        let mut n = 0;
        for mk in self.probes {
            let tape = mk();
            n += 1;
            let r = crate::driver::catch(|| run_hist_with_crash(&tape, (self.profile)(&tape), (self.ccfg)(tier), false, true).2);
            match r {
                Ok(Ok(())) => {}
                Ok(Err(f)) => out.push((f, Some(tape))),
                Err(p) => out.push((Failure::new(format!("panic:{}", crate::driver::normalize_sig(&p)), format!("panic in known-finding probe: {p}")), Some(tape))),
            }
        }
        acc.extra.insert("known_finding_probes_run".into(), json!(n));
        out
    }
    fn render(&self, tape: &Tape) -> Value {
        let (m, co, r) = run_hist_with_crash(tape, (self.profile)(tape), (self.ccfg)(tier_of_env()), true, false);
        json!({
            "config": decode_cfg(tape).json(),
            "ops": m.as_ref().and_then(|m| m.trace.clone()),
            "commit_points": m.as_ref().map(|m| m.commits.iter().enumerate().map(|(i, c)| format!("S{i}: {} tables, {} entries, savepoints {:?}", c.tables.len(), c.tables.values().map(|t| t.entries()).sum::<usize>(), c.psp.keys().collect::<Vec<_>>())).collect::<Vec<_>>()),
            "crash_states_evaluated": co.as_ref().map(|c| c.states),
            "result": r.as_ref().err().map(|f| f.msg.clone()),
            "crash": r.err().map(|f| f.detail),
        })
    }
}

// ---------------------------------------------------------------------------------------------

fn p_c01(_tape: &Tape) -> Profile {
    let mut p = Profile::base();
    p.w_begin = 16;
    p.w_commit = 30;
    p.nondurable = 90;
    p.w_sp_pers = 4;
    p.w_sp_eph = 2;
    p.w_restore = 3;
    p.w_del_pers = 2;
    p.w_compact = 2;
    p.w_reopen = 2;
    p.w_check = 1;
    p.w_begin_read = 1;
    p.w_reader_probe = 1;
    p.w_take_owned = 0;
    p.w_owned_step = 0;
    p.w_hold = 0;
    p.w_drop_hold = 0;
    p.mismatch = 0;
    p.verify_each_commit = false;
    p.key_universe = 64;
    // rebuilds and recoveries over pending-free records that span several entries need bulk writes
    p.bulk_one_in = 4;
    p
}

fn cc_c01(tier: Tier) -> CrashCfg {
    CrashCfg {
        max_states: tier.pick(200, 1500),
        exhaustive_w: tier.pick(4, 8),
        per_instant: tier.pick(5, 8),
        nested_depth: 1,
        nested_states: tier.pick(1, 3),
        check_integrity: false,
        continue_writes: false,
        phases: &[],
    }
}

pub fn c01() -> CrashCheck {
    CrashCheck {
        id: "C01",
        profile: p_c01,
        ccfg: cc_c01,
        rule: "hist tapes (mixed Durability::None/Immediate, 1PC/2PC/quick-repair, savepoint and compaction steps, reopen, growth and shrink; 6 page sizes, small regions, cache 0..1GiB) are executed on a recording backend; crash instants = state-changing backend calls after creation (all of them when the budget allows, else a stratified sample that always contains set_len neighbours and the last write before each sync); per instant: nothing/everything kept, in-flight op dropped/only kept, header-only and its converse, set_len dropped, single drops/keeps, random subsets with p in {0.1,0.5,0.9}, ALL 2^W subsets when W <= 4 (thorough: 8), tears of the header write at the god byte / slot / transaction id / checksum boundaries and random tears of page writes; each image must reopen and equal, over all tables and persistent savepoints, exactly one commit point S_j with d <= j <= r; a sample of recoveries is crashed again inside the recovery run (nested) under the same window. Non-trivial: a crash state with >=1 pending write kept and >=1 dropped or torn, taken outside the idle phase; distinct by image hash.",
        assumptions: &["any commit point j in [d, r] is accepted, including non-durable ones (that is what the statement says)"],
        quick: (200, 90),
        thorough: (6000, 140),
        probes: &[],
    }
}

fn p_c11(_tape: &Tape) -> Profile {
    let mut p = p_c01(_tape);
    p.w_reopen = 6;
    p.w_check = 5;
    p.w_abort = 8;
    p.w_delete_table = 3;
    p.nondurable = 70;
    // rebuilds and recoveries over pending-free records that span several entries need bulk writes
    p.bulk_one_in = 4;
    p
}

fn cc_c11(tier: Tier) -> CrashCfg {
    CrashCfg {
        max_states: tier.pick(100, 700),
        exhaustive_w: tier.pick(3, 7),
        per_instant: tier.pick(4, 6),
        nested_depth: 1,
        nested_states: 1,
        check_integrity: true,
        continue_writes: true,
        phases: &[],
    }
}

/// known finding C11/check-integrity-false-after-unwritten-resize: (4 KiB pages) close, open,
/// one insert, abort, check_integrity
fn probe_c11_abort_after_growth() -> Tape {
    let mut cfg = [0u8; 16];
    cfg[0] = 0x80; // page size 4096
    cfg[1] = 0xff; // largest region
    let p = p_c11(&Tape { cfg, recs: vec![] });
    build_tape(&p, cfg, &[(kind::REOPEN, &[]), (kind::TABLE_OP, &[0, 0xff, 0]), (kind::ABORT, &[0]), (kind::CHECK, &[])])
}

pub fn c11() -> CrashCheck {
    CrashCheck {
        id: "C11",
        profile: p_c11,
        ccfg: cc_c11,
        rule: "hist tapes with frequent quick-repair commits, clean reopen, check_integrity and aborts are executed on a recording backend and stopped in every way: clean close + open inside the history (contents and persistent savepoints must be unchanged, check_integrity must return Ok(true) whenever it is callable), and a crash at sampled/enumerated storage operations (same crash model as C01); after every crash recovery: contents equal one commit point in the window, check_integrity() == Ok(true) twice with unchanged contents, then a continuation workload writes to every table and creates a new one, commits, everything is re-read and check_integrity() must again be Ok(true) (a page wrongly considered free would be handed out and corrupt a table; a stale allocator snapshot shows up as Ok(false)). Non-trivial: crash state with >=1 pending write kept and >=1 dropped or torn outside the idle phase; distinct by image hash.",
        assumptions: &["allocation state is observed through check_integrity() (which rebuilds it from the roots and compares) and through safe reuse under the continuation workload; exact page accounting is C06", "Ok(false) after a caught-panic leak is documented and not generated"],
        quick: (320, 80),
        thorough: (4000, 120),
        probes: &[probe_c11_abort_after_growth],
    }
}
