//! C08 for a backend call that fails by panicking (a user `StorageBackend` may do that) inside a
//! write transaction or its commit. The panic unwinds through redb and is caught by the caller,
//! who keeps using the `Database`. redb arms a latch around every commit for exactly this case
//! (the allocator state of a half-done durable commit is discarded and further writes are refused
//! until a reopen). Oracle: later calls either return an error or behave per the model; they never
//! panic for a reason other than a poisoned lock (a panic that unwound while redb held a mutex
//! poisons it; that is reported by redb as an error or a panic naming the poisoning, and is
//! tolerated and counted); after dropping everything and reopening, the contents equal one commit
//! point: no older than the last commit that returned Ok, with the interrupted commit wholly
//! present or absent; check_integrity() reports Ok(_) and a second one Ok(true).

use crate::backend::RecBackend;
use crate::driver::{Failure, catch};
use crate::genr::{DbCfg, fill};
use redb::{Durability, ReadableDatabase, ReadableTable, TableDefinition};
use std::collections::BTreeMap;

const T: TableDefinition<u64, &[u8]> = TableDefinition::new("p");

#[derive(Clone, Copy, Debug)]
pub struct Sc {
    pub seed: u64,
    pub page: usize,
    pub cache: usize,
    /// commits before the faulty one: bit i set = non-durable
    pub pre: u8,
    pub pre_n: u8,
    pub two_phase: bool,
    pub nondurable_target: bool,
    pub k: u64,
    pub later: u8,
}

type Model = BTreeMap<u64, Vec<u8>>;

fn write_round(t: &mut redb::Table<'_, u64, &[u8]>, m: &mut Model, seed: u64, round: u64) -> Result<(), String> {
    for i in 0..30u64 {
        let k = (i * 7 + round * 3) % 60;
        let v = fill(seed ^ (round << 20) ^ k, 60 + ((round as usize + k as usize * 5) % 9) * 55);
        t.insert(k, v.as_slice()).map_err(|e| format!("{e:?}"))?;
        m.insert(k, v);
    }
    if round % 3 == 2 {
        for k in (0..60u64).step_by(4) {
            t.remove(k).map_err(|e| format!("{e:?}"))?;
            m.remove(&k);
        }
    }
    Ok(())
}

fn tolerated(p: &str) -> bool {
    p.contains("PoisonError") || p.contains("LockPoisoned") || p.contains("verif: injected backend panic")
}

#[derive(Default)]
pub struct Out {
    pub panic_fired: bool,
    pub later_commits_ok: u32,
    pub later_refused: u32,
    pub poison_panics: u32,
}

pub fn run(sc: Sc) -> Result<Out, Failure> {
    let fail = |sig: &str, m: String| Failure::new(sig, format!("backend panic inside a write transaction {sc:?}: {m}"));
    let cfg = DbCfg { page_size: sc.page, region_size: (sc.page as u64 * 64).max(65536), cache_size: sc.cache };
    let backend = RecBackend::new(false);
    let db = cfg.builder().create_with_backend(backend.clone()).map_err(|e| Failure::new("create", format!("{e:?}")))?;
    let mut model = Model::new();
    let mut out = Out::default();
    // commit points that may be found after the reopen
    let mut durable_floor: Model = Model::new();
    let mut candidates: Vec<Model> = vec![Model::new()];
    let mut round = 0u64;
    for i in 0..sc.pre_n {
        let nd = (sc.pre >> i) & 1 == 1;
        let mut w = db.begin_write().map_err(|e| fail("harness", format!("{e:?}")))?;
        if nd {
            w.set_durability(Durability::None).map_err(|e| fail("harness", format!("{e:?}")))?;
        }
        {
            let mut t = w.open_table(T).map_err(|e| fail("harness", format!("{e:?}")))?;
            write_round(&mut t, &mut model, sc.seed, round).map_err(|e| fail("harness", e))?;
        }
        w.commit().map_err(|e| fail("harness", format!("{e:?}")))?;
        round += 1;
        if !nd {
            durable_floor = model.clone();
            candidates.clear();
        }
        candidates.push(model.clone());
    }
    // the faulty transaction
    let committed_before = model.clone();
    let mut attempted = model.clone();
    backend.set_panic_at(Some(backend.calls() + sc.k));
    let r = catch(|| -> Result<(), String> {
        let mut w = db.begin_write().map_err(|e| format!("{e:?}"))?;
        if sc.nondurable_target {
            w.set_durability(Durability::None).map_err(|e| format!("{e:?}"))?;
        }
        if sc.two_phase {
            w.set_two_phase_commit(true);
        }
        {
            let mut t = w.open_table(T).map_err(|e| format!("{e:?}"))?;
            write_round(&mut t, &mut attempted, sc.seed, round)?;
        }
        w.commit().map_err(|e| format!("{e:?}"))
    });
    round += 1;
    out.panic_fired = backend.lock().fault_fired;
    backend.set_panic_at(None);
    let mut uncertain = matches!(r, Ok(Err(_)) | Err(_));
    match r {
        Ok(Ok(())) => {
            model = attempted.clone();
            if !sc.nondurable_target {
                durable_floor = model.clone();
                candidates.clear();
            }
            candidates.push(model.clone());
        }
        Ok(Err(_)) => {
            // refused or failed: wholly present or absent
            candidates.push(attempted.clone());
            model = committed_before.clone();
        }
        Err(p) if tolerated(&p) => {
            candidates.push(attempted.clone());
            model = committed_before.clone();
        }
        Err(p) => return Err(fail("panic-not-from-backend", format!("the faulty transaction panicked with something else than the injected panic: {p}"))),
    }
    // keep using the database
    for _ in 0..sc.later {
        let mut next = model.clone();
        let r = catch(|| -> Result<bool, String> {
            let w = match db.begin_write() {
                Ok(w) => w,
                Err(_) => return Ok(false),
            };
            {
                let mut t = match w.open_table(T) {
                    Ok(t) => t,
                    Err(e) => return Err(format!("open_table: {e:?}")),
                };
                // what the transaction sees must be a committed state (the interrupted commit wholly in or out)
                let seen: Model = t.iter().map_err(|e| format!("{e:?}"))?.map(|e| e.map(|(k, v)| (k.value(), v.value().to_vec()))).collect::<Result<_, _>>().map_err(|e| format!("{e:?}"))?;
                if seen != next {
                    if uncertain && seen == attempted {
                        next = attempted.clone();
                    } else {
                        return Err(format!("SEEN a write transaction begun after the caught panic sees {} rows that equal neither the last committed state nor the interrupted commit", seen.len()));
                    }
                }
                write_round(&mut t, &mut next, sc.seed, round)?;
            }
            w.commit().map_err(|e| format!("commit: {e:?}"))?;
            Ok(true)
        });
        round += 1;
        match r {
            Ok(Ok(true)) => {
                out.later_commits_ok += 1;
                uncertain = false;
                model = next;
                durable_floor = model.clone();
                candidates.clear();
                candidates.push(model.clone());
            }
            Ok(Ok(false)) => out.later_refused += 1,
            Ok(Err(e)) if e.starts_with("SEEN") => return Err(fail("state-after-caught-panic", e)),
            Ok(Err(_)) => {
                out.later_refused += 1;
                candidates.push(next);
            }
            Err(p) if tolerated(&p) => {
                out.poison_panics += 1;
                candidates.push(next);
            }
            Err(p) => return Err(fail("panic-after-caught-panic", format!("a later write transaction on the same Database panicked (not a poisoned lock): {p}"))),
        }
    }
    let _ = durable_floor;
    let _ = catch(move || drop(db));
    // reopen from what the backend holds (no crash: every write issued is in the image)
    let mut db = match catch(|| cfg.builder().create_with_backend(backend.reopen_handle())) {
        Ok(Ok(db)) => db,
        Ok(Err(e)) => return Err(fail("reopen-failed", format!("reopening after the caught panic failed: {e:?}"))),
        Err(p) => return Err(fail("reopen-panicked", format!("reopening after the caught panic panicked: {p}"))),
    };
    match catch(|| db.check_integrity()) {
        Ok(Ok(true)) => {}
        Ok(Ok(false)) => match catch(|| db.check_integrity()) {
            Ok(Ok(true)) => {}
            r => return Err(fail("second-check-after-repair", format!("second check_integrity() after a reported repair: {r:?}"))),
        },
        Ok(Err(e)) => return Err(fail("integrity-error", format!("check_integrity() after the reopen: {e:?}"))),
        Err(p) => return Err(fail("integrity-panic", format!("check_integrity() after the reopen panicked: {p}"))),
    }
    let got: Result<Model, String> = (|| {
        let rt = db.begin_read().map_err(|e| format!("{e:?}"))?;
        match rt.open_table(T) {
            Ok(t) => t.iter().map_err(|e| format!("{e:?}"))?.map(|e| e.map(|(k, v)| (k.value(), v.value().to_vec())).map_err(|e| format!("{e:?}"))).collect(),
            Err(redb::TableError::TableDoesNotExist(_)) => Ok(Model::new()),
            Err(e) => Err(format!("{e:?}")),
        }
    })();
    let got = got.map_err(|e| fail("read-after-reopen", e))?;
    if !candidates.iter().any(|c| *c == got) {
        return Err(fail("not-a-commit-point", format!("after the reopen the table holds {} rows, which equal none of the {} admissible commit points (last acknowledged .. last attempted)", got.len(), candidates.len())));
    }
    Ok(out)
}

pub struct GridStats {
    pub scenarios: u64,
    pub panic_fired: u64,
    pub later_commits_ok: u64,
    pub later_refused: u64,
    pub poison_panics: u64,
}

pub fn run_grid(seed: u64, thorough: bool, threads: usize) -> (GridStats, Vec<Failure>) {
    let mut scs = vec![];
    let kmax = if thorough { 60 } else { 36 };
    for (page, cache) in [(512usize, 0usize), (512, 1 << 20), (4096, 64 * 1024)] {
        for (pre_n, pre) in [(1u8, 0u8), (2, 0), (2, 2), (3, 0b110), (3, 0)] {
            for (two_phase, nondurable_target) in [(false, false), (true, false), (false, true)] {
                for k in 0..kmax {
                    scs.push(Sc { seed, page, cache, pre, pre_n, two_phase, nondurable_target, k, later: 3 });
                }
            }
        }
    }
    let next = std::sync::atomic::AtomicUsize::new(0);
    let stats = std::sync::Mutex::new(GridStats { scenarios: 0, panic_fired: 0, later_commits_ok: 0, later_refused: 0, poison_panics: 0 });
    let fails = std::sync::Mutex::new(Vec::<Failure>::new());
    std::thread::scope(|s| {
        for _ in 0..threads {
            s.spawn(|| {
                loop {
                    let i = next.fetch_add(1, std::sync::atomic::Ordering::SeqCst);
                    if i >= scs.len() || !fails.lock().unwrap().is_empty() {
                        break;
                    }
                    match catch(|| run(scs[i])) {
                        Ok(Ok(o)) => {
                            let mut g = stats.lock().unwrap();
                            g.scenarios += 1;
                            g.panic_fired += u64::from(o.panic_fired);
                            g.later_commits_ok += u64::from(o.later_commits_ok);
                            g.later_refused += u64::from(o.later_refused);
                            g.poison_panics += u64::from(o.poison_panics);
                        }
                        Ok(Err(f)) => fails.lock().unwrap().push(f),
                        Err(p) => fails.lock().unwrap().push(crate::driver::panic_failure(p, &format!("backend panic scenario {:?}", scs[i]))),
                    }
                }
            });
        }
    });
    (stats.into_inner().unwrap(), fails.into_inner().unwrap())
}
