//! C14: the page allocator never double-allocates and never loses space (engine `alloc`,
//! through the `redb::verif::{Buddy, Mem}` wrapper hooks)

use crate::driver::{Acc, CaseOut, Check, Failure, Plan, Tier, catch, normalize_sig};
use crate::tape::{Fnv, Rec, Tape};
use redb::verif::{Buddy, Mem, PageId};
use serde_json::{Value, json};

pub struct C14;

#[derive(Clone, Debug)]
pub enum AOp {
    Alloc(u8),
    AllocLowest(u8),
    Free(usize),
    RecordAlloc(u32, u8),
    Resize(u32),
    Reload,
}

/// bitset model of one region
#[derive(Clone)]
struct Model {
    used: Vec<bool>,
    cap: u32,
    max_order: u8,
    live: Vec<(u32, u8)>,
}

impl Model {
    fn new(len: u32, cap: u32) -> Model {
        let max_order = (31 - cap.leading_zeros()).min(20) as u8;
        Model { used: vec![false; len as usize], cap, max_order, live: vec![] }
    }
    fn len(&self) -> u32 {
        self.used.len() as u32
    }
    fn block_free(&self, idx: u32, order: u8) -> bool {
        let start = (idx as u64) << order;
        let end = ((idx as u64) + 1) << order;
        if order > self.max_order || end > self.used.len() as u64 {
            return false;
        }
        self.used[start as usize..end as usize].iter().all(|u| !u)
    }
    fn lowest_free(&self, order: u8) -> Option<u32> {
        if order > self.max_order {
            return None;
        }
        let n = self.len() >> order;
        (0..n).find(|i| self.block_free(*i, order))
    }
    fn highest_free_order(&self) -> Option<u8> {
        (0..=self.max_order).rev().find(|o| self.lowest_free(*o).is_some())
    }
    fn mark(&mut self, idx: u32, order: u8, v: bool) {
        let start = (idx as usize) << order;
        let end = ((idx as usize) + 1) << order;
        for u in &mut self.used[start..end] {
            *u = v;
        }
    }
    fn trailing_free(&self) -> u32 {
        self.used.iter().rev().take_while(|u| !**u).count() as u32
    }
    fn allocated(&self) -> u32 {
        self.used.iter().filter(|u| **u).count() as u32
    }
}

struct Run {
    b: Buddy,
    m: Model,
    merges2: u32,
    alloc_after_merge: bool,
    last_merge_order: Option<u8>,
    odd_resize_with_live: bool,
    reloads: u32,
}

fn fail(sig: &str, msg: String) -> Failure {
    Failure::new(sig, msg)
}

fn step(run: &mut Run, op: &AOp) -> Result<(), Failure> {
    match op {
        AOp::Alloc(o) | AOp::AllocLowest(o) => {
            let lowest = matches!(op, AOp::AllocLowest(_));
            let exp_lowest = run.m.lowest_free(*o);
            let got = if lowest { run.b.alloc_lowest(*o) } else { run.b.alloc(*o) };
            match (got, exp_lowest) {
                (None, None) => {}
                (None, Some(i)) => return Err(fail("alloc-refused", format!("{op:?} was refused although the aligned block {i} of order {o} is entirely free (len {}, capacity {})", run.m.len(), run.m.cap))),
                (Some(i), None) => return Err(fail("alloc-invented", format!("{op:?} returned block {i} but the model has no free aligned block of order {o} (len {})", run.m.len()))),
                (Some(i), Some(low)) => {
                    if !run.m.block_free(i, *o) {
                        return Err(fail("alloc-overlap", format!("{op:?} returned block {i} of order {o}, which is out of range or overlaps a live block (len {})", run.m.len())));
                    }
                    if lowest && i != low {
                        return Err(fail("alloc-not-lowest", format!("alloc_lowest({o}) returned block {i}, the lowest free aligned block is {low}")));
                    }
                    run.m.mark(i, *o, true);
                    run.m.live.push((i, *o));
                    if let Some(mo) = run.last_merge_order
                        && *o == mo
                    {
                        run.alloc_after_merge = true;
                    }
                }
            }
        }
        AOp::Free(k) => {
            if run.m.live.is_empty() {
                return Ok(());
            }
            let (i, o) = run.m.live.remove(k % run.m.live.len());
            let merged = run.b.free(i, o);
            run.m.mark(i, o, false);
            // the largest order at which the enclosing aligned block is entirely free
            let mut exp = o;
            while exp < run.m.max_order && run.m.block_free(i >> (exp + 1 - o), exp + 1) {
                exp += 1;
            }
            if merged != exp {
                return Err(fail("free-merge-order", format!("free(block {i}, order {o}) reported a free block of order {merged}; its neighbours allow order {exp}")));
            }
            if merged >= o + 2 {
                run.merges2 += 1;
                run.last_merge_order = Some(merged);
            }
        }
        AOp::RecordAlloc(i, o) => {
            let exp = run.m.block_free(*i, *o);
            let got = run.b.record_alloc(*i, *o);
            if got != exp {
                return Err(fail("record-alloc", format!("record_alloc(block {i}, order {o}) returned {got}; the block is {} (len {})", if exp { "entirely free and in range" } else { "out of range or not entirely free" }, run.m.len())));
            }
            if got {
                run.m.mark(*i, *o, true);
                run.m.live.push((*i, *o));
            }
        }
        AOp::Resize(n) => {
            let n = (*n).min(run.m.cap).max(1);
            let len = run.m.len();
            if n >= len {
                run.b.resize(n);
                run.m.used.resize(n as usize, false);
            } else {
                // the caller's precondition (try_shrink): only trailing free pages are cut
                let cut = (len - n).min(run.m.trailing_free());
                let n = len - cut;
                if n == 0 || cut == 0 {
                    return Ok(());
                }
                run.b.resize(n);
                run.m.used.truncate(n as usize);
            }
            if !run.m.len().is_power_of_two() && !run.m.live.is_empty() {
                run.odd_resize_with_live = true;
            }
        }
        AOp::Reload => {
            let bytes = run.b.to_vec();
            let h = run.b.hash();
            run.b = Buddy::from_bytes(&bytes);
            if run.b.hash() != h || run.b.to_vec() != bytes {
                return Err(fail("reload-differs", "to_vec/from_bytes did not reproduce the allocator".to_string()));
            }
            run.reloads += 1;
        }
    }
    // invariants after every step
    let (la, lf) = (run.b.count_allocated_pages(), run.b.count_free_pages());
    if la != run.m.allocated() || la + lf != run.m.len() || run.b.len() != run.m.len() {
        return Err(fail("counts", format!("after {op:?}: allocator reports len {} allocated {la} free {lf}; model len {} allocated {}", run.b.len(), run.m.len(), run.m.allocated())));
    }
    let (hf, ehf) = (run.b.highest_free_order(), run.m.highest_free_order());
    if hf != ehf {
        return Err(fail("highest-free-order", format!("after {op:?}: highest_free_order() is {hf:?}, the largest order with an entirely free aligned block is {ehf:?}")));
    }
    if run.m.len() > 0 {
        let (tf, etf) = (run.b.trailing_free_pages(), run.m.trailing_free());
        if tf != etf {
            return Err(fail("trailing-free", format!("after {op:?}: trailing_free_pages() is {tf}, model says {etf}")));
        }
    }
    Ok(())
}

fn decode(tape: &Tape) -> (u32, u32, Vec<AOp>) {
    let c = &tape.cfg;
    let cap = match c[3] % 6 {
        0 => 1 + u32::from(c[4]) % 16,
        1 => 16 + u32::from(c[4]),
        2 => [64u32, 100, 127, 128, 129, 255, 256, 1000, 1024, 4096][(c[4] % 10) as usize],
        3 => 1 + u32::from(u16::from_le_bytes([c[4], c[5]])) % 4096,
        _ => 2 + u32::from(c[4]) % 62,
    };
    let init = 1 + u32::from(u16::from_le_bytes([c[6], c[7]])) % cap;
    let init = if c[8] % 3 == 0 { cap } else { init };
    let mut ops = vec![];
    const W: [u32; 6] = [30, 16, 30, 10, 8, 4];
    let max_order = (31 - cap.leading_zeros()) as u8;
    for rec in &tape.recs {
        let mut r = Rec::new(rec);
        let k = r.weighted(&W);
        // small orders dominate, with regular larger ones
        let ord = {
            let b = r.u8();
            if b < 150 { b % 2 } else { b % (max_order + 2) }
        };
        ops.push(match k {
            0 => AOp::Alloc(ord),
            1 => AOp::AllocLowest(ord),
            2 => AOp::Free(r.u16() as usize),
            3 => AOp::RecordAlloc(u32::from(r.u16()) % (cap + 2), ord),
            4 => AOp::Resize(1 + u32::from(r.u16()) % cap),
            _ => AOp::Reload,
        });
    }
    (cap, init, ops)
}

fn run_seq(cap: u32, init: u32, ops: &[AOp]) -> Result<Run, Failure> {
    let mut run = Run { b: Buddy::new(init, cap), m: Model::new(init, cap), merges2: 0, alloc_after_merge: false, last_merge_order: None, odd_resize_with_live: false, reloads: 0 };
    if run.b.max_order() != run.m.max_order {
        return Err(fail("max-order", format!("max order {} for capacity {cap}, model says {}", run.b.max_order(), run.m.max_order)));
    }
    for op in ops {
        match catch(|| step(&mut run, op)) {
            Ok(r) => r?,
            Err(p) => return Err(Failure::new(format!("panic:{}", normalize_sig(&p)), format!("panic in the allocator during {op:?} (capacity {cap}, initial {init}): {p}"))),
        }
    }
    Ok(run)
}

// ---------------------------------------------------------------------------------------------
// Mem level: region tracker + regional allocators + growth

#[derive(Clone, Debug)]
enum MOp {
    Alloc { pages: usize, lowest: bool },
    Free(usize),
    /// the region shrink step of commit()
    Shrink { force: bool },
}

fn order_of(pages: usize) -> u8 {
    pages.next_power_of_two().trailing_zeros() as u8
}

fn run_mem(tape: &Tape, out: &mut CaseOut) -> Result<(), Failure> {
    let c = &tape.cfg;
    let page = [512usize, 1024, 4096][(c[4] % 3) as usize];
    let region = (page as u64 * 64) << (c[5] % 2);
    let mem = match catch(|| Mem::new(page, region)) {
        Ok(Ok(m)) => m,
        Ok(Err(e)) => return Err(fail("mem-new", format!("creating the page manager failed: {e:?}"))),
        Err(p) => return Err(Failure::new(format!("panic:{}", normalize_sig(&p)), format!("panic creating the page manager: {p}"))),
    };
    let region_pages = (region / page as u64) as usize;
    let snap = mem.snapshot();
    // model: per region bitset (initially what the snapshot says: nothing for a fresh file)
    let mut used: Vec<Vec<bool>> = snap.regions.iter().map(|r| {
        let mut v = vec![false; r.len as usize];
        for a in &r.allocated {
            v[*a as usize] = true;
        }
        v
    }).collect();
    let mut live: Vec<PageId> = vec![];
    let mut grew = 0u32;
    let mut refilled_after_free = false;
    let mut freed_any = false;
    let mut shrunk = 0u32;
    let mut dropped_region = false;
    let mut before_shrink_regions_max = used.len();
    for rec in &tape.recs {
        before_shrink_regions_max = before_shrink_regions_max.max(used.len());
        let mut r = Rec::new(rec);
        let sel = r.u8();
        let op = if sel >= 244 {
            MOp::Shrink { force: r.bool() }
        } else if sel < 150 || live.is_empty() {
            let pages = match r.u8() % 10 {
                0..=3 => 1,
                4 => 2,
                5 => 3,
                6 => 5,
                7 => 16,
                8 => region_pages / 4,
                _ => 1 + (r.u8() as usize) % (region_pages / 4),
            };
            MOp::Alloc { pages, lowest: r.bool() }
        } else {
            MOp::Free(r.u16() as usize)
        };
        match op {
            MOp::Alloc { pages, lowest } => {
                let o = order_of(pages);
                let fits = |u: &Vec<bool>| -> bool {
                    let n = u.len() >> o;
                    (0..n).any(|i| u[(i << o)..((i + 1) << o)].iter().all(|x| !x))
                };
                let existing_has_room = used.iter().any(fits);
                let before_len = mem.snapshot().file_len;
                let before_regions = used.len();
                let got = match catch(|| mem.allocate(pages * page, lowest)) {
                    Ok(Ok(p)) => p,
                    Ok(Err(e)) => return Err(fail("mem-alloc-error", format!("allocate({pages} pages) failed: {e:?}"))),
                    Err(p) => return Err(Failure::new(format!("panic:{}", normalize_sig(&p)), format!("panic in allocate({pages} pages, lowest={lowest}): {p}"))),
                };
                let after = mem.snapshot();
                if existing_has_room {
                    if after.file_len != before_len || after.regions.len() != before_regions {
                        return Err(fail("region-reported-full", format!("allocate({pages} pages) grew the file ({before_len} -> {} bytes, {before_regions} -> {} regions) although an existing region holds a suitable aligned free block", after.file_len, after.regions.len())));
                    }
                    if freed_any {
                        refilled_after_free = true;
                    }
                } else {
                    grew += 1;
                }
                // sync model sizes (regions may have grown / been added)
                for (i, ri) in after.regions.iter().enumerate() {
                    if i >= used.len() {
                        used.push(vec![false; ri.len as usize]);
                    } else if used[i].len() < ri.len as usize {
                        used[i].resize(ri.len as usize, false);
                    }
                }
                if got.order != o {
                    return Err(fail("mem-alloc-order", format!("allocate({pages} pages) returned order {}, expected {o}", got.order)));
                }
                let (s, e) = ((got.index as usize) << o, ((got.index as usize) + 1) << o);
                let u = used.get_mut(got.region as usize).ok_or_else(|| fail("mem-alloc-region", format!("allocation landed in region {} of {}", got.region, after.regions.len())))?;
                if e > u.len() || u[s..e].iter().any(|x| *x) {
                    return Err(fail("mem-alloc-overlap", format!("allocate({pages} pages) returned {got:?}, which is outside its region or overlaps a live block")));
                }
                for x in &mut u[s..e] {
                    *x = true;
                }
                live.push(got);
            }
            MOp::Shrink { force } => {
                let changed = match catch(|| mem.shrink(force)) {
                    Ok(Ok(b)) => b,
                    Ok(Err(e)) => return Err(fail("mem-shrink-error", format!("shrink(force={force}) failed: {e:?}"))),
                    Err(p) => return Err(Failure::new(format!("panic:{}", normalize_sig(&p)), format!("panic in the region shrink step (force={force}): {p}"))),
                };
                let after = mem.snapshot();
                if after.regions.len() > used.len() {
                    return Err(fail("mem-shrink-grew", format!("shrink added regions: {} -> {}", used.len(), after.regions.len())));
                }
                // only free pages may disappear
                for (i, u) in used.iter().enumerate() {
                    let keep = after.regions.get(i).map(|r| r.len as usize).unwrap_or(0);
                    if keep > u.len() {
                        return Err(fail("mem-shrink-grew", format!("shrink made region {i} larger: {} -> {keep} pages", u.len())));
                    }
                    if u[keep..].iter().any(|x| *x) {
                        return Err(fail("mem-shrink-dropped-live-block", format!("shrink(force={force}) cut region {i} to {keep} pages although a live block lies beyond")));
                    }
                }
                used.truncate(after.regions.len());
                for (i, u) in used.iter_mut().enumerate() {
                    u.truncate(after.regions[i].len as usize);
                }
                if changed {
                    shrunk += 1;
                    if after.regions.len() < before_shrink_regions_max {
                        dropped_region = true;
                    }
                }
            }
            MOp::Free(k) => {
                let p = live.remove(k % live.len());
                if let Err(pn) = catch(|| mem.free(p)) {
                    return Err(Failure::new(format!("panic:{}", normalize_sig(&pn)), format!("panic in free({p:?}): {pn}")));
                }
                let (s, e) = ((p.index as usize) << p.order, ((p.index as usize) + 1) << p.order);
                for x in &mut used[p.region as usize][s..e] {
                    *x = false;
                }
                freed_any = true;
            }
        }
        // snapshot cross-check: allocated sets equal
        let s = mem.snapshot();
        for (i, ri) in s.regions.iter().enumerate() {
            let exp: Vec<u32> = used[i].iter().enumerate().filter(|(_, u)| **u).map(|(j, _)| j as u32).collect();
            if ri.allocated != exp {
                return Err(fail("mem-accounting", format!("region {i}: allocator says {} pages allocated, the live blocks cover {}", ri.allocated.len(), exp.len())));
            }
        }
    }
    out.class("page-manager level case (region tracker + growth)");
    if grew > 0 {
        out.class("page-manager case with file growth");
    }
    if shrunk > 0 {
        out.class("page-manager case with a region shrink that changed the layout");
    }
    if dropped_region {
        out.class("page-manager case in which a shrink dropped a whole region");
    }
    if refilled_after_free {
        let mut h = Fnv::new();
        h.write_u64(tape.hash64());
        out.nontrivial.push(h.finish());
        out.class("page-manager case: allocation satisfied from an existing region after frees");
    }
    Ok(())
}

fn enum_ops(cap: u32) -> Vec<AOp> {
    let mut v = vec![];
    for o in 0..=2u8 {
        v.push(AOp::Alloc(o));
        v.push(AOp::AllocLowest(o));
    }
    v.push(AOp::Free(0));
    v.push(AOp::Free(usize::MAX / 2));
    for i in 0..cap {
        v.push(AOp::RecordAlloc(i, 0));
        if i < cap.div_ceil(2) {
            v.push(AOp::RecordAlloc(i, 1));
        }
    }
    for n in 1..=cap {
        v.push(AOp::Resize(n));
    }
    v.push(AOp::Reload);
    v
}

impl Check for C14 {
    fn id(&self) -> &'static str {
        "C14"
    }
    fn rule(&self) -> String {
        "tapes of alloc(order), alloc_lowest(order), free(live block), record_alloc(index, order) on free / partially used / out-of-range targets, resize (grow to any size <= capacity; shrink by at most the trailing free pages, the caller's precondition) and serialize+deserialize, for capacities 1..4096 including non-powers of two and any initial size, against a bitset model: alloc returns Some iff an aligned entirely-free block inside len exists and the block returned is free, aligned, in range; alloc_lowest returns the lowest such index; record_alloc returns true iff its block is entirely free and in range; free reports exactly the largest order its neighbours allow; after every step counts, highest_free_order and trailing_free_pages equal the model. Exhaustive stage: every sequence of length <= 4 (thorough: 5 for capacity <= 4) over the full op alphabet for capacities 1..6 and both initial sizes {capacity, ceil(capacity/2)}. A quarter of the tapes drive the page manager (region tracker + regional allocators + growth, 64..128-page regions) with allocate(1 page..region/4, lowest or not)/free: an allocation must not grow the file when an existing region holds a suitable aligned free block, blocks are disjoint and in range, and the allocator's allocated set equals the live blocks after every step. Non-trivial: a free that merged across >= 2 orders followed by an allocation of the merged order, or a resize to a non-power-of-two size with live blocks, or (page manager) an allocation served from an existing region after frees; distinct by tape hash.".into()
    }
    fn assumptions(&self) -> Vec<String> {
        vec!["resize shrinks only by trailing free pages (precondition of try_shrink)".into(), "free is called only on live blocks at their own order".into()]
    }
    fn fuzz_runs(&self) -> u64 {
        1_200_000
    }
    fn plan(&self, tier: Tier) -> Plan {
        Plan { cases: tier.pick(300_000, 6_000_000), max_recs: 80, max_shrink_iters: 5000, workers: 16 }
    }
    fn run(&self, tape: &Tape, want_sample: bool) -> Result<CaseOut, Failure> {
        let mut out = CaseOut { evals: 1, ..Default::default() };
        if tape.cfg[3] % 6 == 5 {
            run_mem(tape, &mut out)?;
        } else {
            let (cap, init, ops) = decode(tape);
            let run = run_seq(cap, init, &ops)?;
            if (run.merges2 >= 1 && run.alloc_after_merge) || run.odd_resize_with_live {
                out.nontrivial.push(tape.hash64());
                out.class("nontrivial (merge across >=2 orders then allocation of that order, or odd resize with live blocks)");
            }
            if run.reloads > 0 {
                out.class("with serialize/deserialize");
            }
            if !cap.is_power_of_two() {
                out.class("non-power-of-two capacity");
            }
        }
        if want_sample {
            out.sample = Some(self.render(tape));
        }
        Ok(out)
    }
    fn extra(&self, tier: Tier, _seed: u64, acc: &mut Acc) -> Vec<(Failure, Option<Tape>)> {
        // bounded-exhaustive: all op sequences up to the depth for small capacities
        let mut total = 0u64;
        for cap in 1..=6u32 {
            let depth = if tier == Tier::Thorough && cap <= 4 { 5 } else { 4 };
            let ops = enum_ops(cap);
            for init in [cap, cap.div_ceil(2)] {
                let mut idx = vec![0usize; depth];
                loop {
                    let seq: Vec<AOp> = idx.iter().map(|i| ops[*i].clone()).collect();
                    total += 1;
                    if let Err(mut f) = run_seq(cap, init, &seq) {
                        f.msg = format!("[exhaustive: capacity {cap}, initial {init}, sequence {seq:?}] {}", f.msg);
                        return vec![(f, None)];
                    }
                    // next
                    let mut k = depth;
                    loop {
                        if k == 0 {
                            break;
                        }
                        k -= 1;
                        idx[k] += 1;
                        if idx[k] < ops.len() {
                            break;
                        }
                        idx[k] = 0;
                        if k == 0 {
                            k = usize::MAX;
                            break;
                        }
                    }
                    if k == usize::MAX {
                        break;
                    }
                }
            }
        }
        acc.evaluations += total;
        acc.extra.insert("exhaustive_sequences".into(), json!(total));
        acc.extra.insert("exhaustive_note".into(), json!("all op sequences of the stated depth for capacities 1..6 were enumerated (complete for that sub-domain); the random stage is a sample"));
        vec![]
    }
    fn render(&self, tape: &Tape) -> Value {
        if tape.cfg[3] % 6 == 5 {
            return json!({"kind": "page manager", "records": tape.recs.len()});
        }
        let (cap, init, ops) = decode(tape);
        json!({"capacity": cap, "initial_pages": init, "ops": ops.iter().take(80).map(|o| format!("{o:?}")).collect::<Vec<_>>()})
    }
}
