//! C16: one write transaction may be used from many threads (engine `sched`)

use crate::account::account;
use crate::driver::{CaseOut, Check, Failure, Plan, Tier, catch, normalize_sig};
use crate::dyntab::*;
use crate::hist::*;
use crate::mmops::decode_mop;
use crate::sched::*;
use crate::tableops::{Stop, decode_top};
use crate::tape::{Fnv, Rec, Tape};
use redb::{Savepoint, SavepointError, WriteTransaction};
use serde_json::{Value, json};
use std::sync::{Arc, Mutex};

pub struct C16;

const TABLES: [(&str, usize); 4] = [("p0", 0), ("p1", 1), ("p2", 2), ("p3", 4)];

fn prefix_profile() -> Profile {
    let mut p = Profile::base();
    p.w_reopen = 0;
    p.w_compact = 0;
    p.w_check = 0;
    p.w_begin_read = 0;
    p.w_reader_probe = 0;
    p.w_take_owned = 0;
    p.w_owned_step = 0;
    p.w_sp_pers = 0;
    p.w_del_pers = 0;
    p.mismatch = 0;
    p.verify_each_commit = false;
    p
}

struct Out {
    classes: Vec<&'static str>,
    nontrivial: Option<u64>,
    points: Vec<(usize, &'static str)>,
    sp_ok: u32,
    sp_refused: u32,
}

fn fail_stop(s: Stop) -> Failure {
    stop_failure(s)
}

fn run_case(tape: &Tape) -> (Out, Result<(), Failure>) {
    let mut out = Out { classes: vec![], nontrivial: None, points: vec![], sp_ok: 0, sp_refused: 0 };
    let r = (|| -> Result<(), Failure> {
        install_hook();
        let c = &tape.cfg;
        let cfg = crate::genr::DbCfg::decode(c[0] / 2, c[1], c[2]);
        let n_tab = 2 + (c[3] % 3) as usize;
        let n_sp = 1 + (c[4] % 2) as usize;
        let free_run = c[5] % 4 == 3;
        let commit = c[6] % 4 != 0;
        let nondurable = c[6] & 16 == 16;
        // split the records: first third = prefix history, rest = per-thread streams + schedule
        let split = tape.recs.len() / 3;
        let mut m = Machine::new(cfg.clone(), prefix_profile(), false, false).map_err(fail_stop)?;
        for rec in &tape.recs[..split] {
            m.exec(rec).map_err(fail_stop)?;
        }
        m.finish().map_err(fail_stop)?;
        m.drop_all_handles();
        // make sure the thread tables exist with known contents (part of the pre-state)
        m.begin_write(Dur::Immediate, false, false).map_err(fail_stop)?;
        {
            let w = m.w.as_mut().unwrap();
            let txn = w.txn.as_ref().unwrap();
            let mut ctx = OpCtx { page: cfg.page_size, ..Default::default() };
            for (name, di) in TABLES.iter().take(n_tab) {
                let def = DEFS[*di];
                let mut tm = TableM::new(def);
                let mut h = unsafe { open_held(txn, name, def) }.map_err(|e| Failure::new("open", format!("{e:?}")))?;
                for i in 0..12usize {
                    let op = if def.multi {
                        AnyOp::M(crate::mmops::MOp::Insert { k: crate::genr::key(def.kty, i % 5, cfg.page_size), v: crate::mmops::mm_val(def.vty, i as u64 + 1, 3, cfg.page_size) })
                    } else {
                        AnyOp::T(crate::tableops::TOp::Insert { k: crate::genr::key(def.kty, i * 3, cfg.page_size), v: crate::genr::val_of(def.vty, i as u64, 60, 3, cfg.page_size, 2000) })
                    };
                    h.apply(&op, &mut tm, &mut ctx).map_err(fail_stop)?;
                }
                drop(h);
                Arc::make_mut(&mut w.work.tables).insert(name.to_string(), tm);
            }
            w.dirty = true;
        }
        m.commit().map_err(fail_stop)?;
        let pre: Tables = (*m.last().tables).clone();
        account(m.db.as_ref().unwrap()).map_err(|e| Failure::new("page-accounting", format!("before the shared transaction: {e}")))?;
        let db = m.db.take().unwrap();

        // the shared write transaction
        let mut wt = db.begin_write().map_err(|e| Failure::new("begin_write", format!("{e:?}")))?;
        if nondurable && commit {
            let _ = wt.set_durability(redb::Durability::None);
        }
        let streams: Vec<Vec<[u8; 12]>> = {
            let mut v = vec![vec![]; n_tab + n_sp];
            for rec in &tape.recs[split..] {
                let th = (rec[0] as usize) % (n_tab + n_sp);
                v[th].push(*rec);
            }
            v
        };
        let decisions: Vec<u8> = tape.recs[split..].iter().flat_map(|r| r[6..].to_vec()).collect();
        let ctl = Ctl::new(n_tab + n_sp, free_run);
        let models: Vec<Mutex<Option<TableM>>> = (0..n_tab).map(|i| Mutex::new(pre.get(TABLES[i].0).cloned())).collect();
        let savepoints: Mutex<Vec<Savepoint>> = Mutex::new(vec![]);
        let errors: Mutex<Vec<Failure>> = Mutex::new(vec![]);
        let sp_stats = Mutex::new((0u32, 0u32));
        let wref: &WriteTransaction = &wt;
        std::thread::scope(|s| {
            for (id, stream) in streams.iter().enumerate() {
                let ctl = ctl.clone();
                let models = &models;
                let savepoints = &savepoints;
                let errors = &errors;
                let sp_stats = &sp_stats;
                let cfg = &cfg;
                s.spawn(move || {
                    ctl.register(id);
                    let r = catch(|| -> Result<(), Failure> {
                        ctl.park(id, "start");
                        if id < n_tab {
                            let (name, di) = TABLES[id];
                            let def = DEFS[di];
                            let mut tm = models[id].lock().unwrap().take().unwrap();
                            let mut ctx = OpCtx { page: cfg.page_size, ..Default::default() };
                            // the first open races with the savepoint threads (set_dirty)
                            let mut h = unsafe { open_held(wref, name, def) }.map_err(|e| Failure::new("shared-open", format!("thread {id}: open {name:?} failed: {e:?}")))?;
                            for (j, rec) in stream.iter().enumerate() {
                                ctl.park(id, "step.boundary");
                                let mut r = Rec::new(&rec[1..]);
                                let tag = ((id as u64) << 40) | ((j as u64) << 16) | u64::from(rec[11]);
                                let op = if def.multi {
                                    AnyOp::M(decode_mop(&mut r, def.kty, def.vty, cfg, 16, 200))
                                } else {
                                    AnyOp::T(decode_top(&mut r, def.kty, def.vty, cfg, 64, tag, false))
                                };
                                h.apply(&op, &mut tm, &mut ctx).map_err(|s| {
                                    let mut f = fail_stop(s);
                                    f.msg = format!("thread {id} on table {name:?} (own stream, op {op:?}): {}", f.msg);
                                    f
                                })?;
                            }
                            h.full(&tm).map_err(|s| {
                                let mut f = fail_stop(s);
                                f.msg = format!("thread {id}: table {name:?} before closing its handle: {}", f.msg);
                                f
                            })?;
                            drop(h);
                            *models[id].lock().unwrap() = Some(tm);
                        } else {
                            for rec in stream {
                                ctl.park(id, "step.boundary");
                                if rec[1] % 5 == 4 {
                                    // drop an earlier savepoint
                                    let sp = savepoints.lock().unwrap().pop();
                                    drop(sp);
                                } else {
                                    match wref.ephemeral_savepoint() {
                                        Ok(sp) => {
                                            sp_stats.lock().unwrap().0 += 1;
                                            savepoints.lock().unwrap().push(sp);
                                        }
                                        Err(SavepointError::InvalidSavepoint) => sp_stats.lock().unwrap().1 += 1,
                                        Err(e) => return Err(Failure::new("shared-savepoint", format!("ephemeral_savepoint() on a shared transaction failed: {e:?}"))),
                                    }
                                }
                            }
                        }
                        Ok(())
                    });
                    match r {
                        Ok(Ok(())) => {}
                        Ok(Err(f)) => errors.lock().unwrap().push(f),
                        Err(p) => errors.lock().unwrap().push(Failure::new(format!("panic:{}", normalize_sig(&p)), format!("thread {id} panicked while sharing a write transaction: {p}"))),
                    }
                    ctl.done(id);
                    Ctl::unregister();
                });
            }
            let mut di = 0usize;
            // the savepoint threads (highest ids) get a tape-chosen number of leading turns so that
            // their calls land before, between and after the first table opens
            let mut lead = (tape.cfg[7] % 8) as usize;
            ctl.drive(|ncand| {
                if lead > 0 {
                    lead -= 1;
                    return (ncand.saturating_sub(1), 0);
                }
                let a = decisions.get(di).copied().unwrap_or(0);
                let b = decisions.get(di + 1).copied().unwrap_or(0);
                di += 2;
                ((a as usize) % ncand.max(1), [0u32, 0, 1, 2][(b % 4) as usize])
            });
        });
        out.points = ctl.st.lock().unwrap().points.clone();
        let (ok, refused) = *sp_stats.lock().unwrap();
        out.sp_ok = ok;
        out.sp_refused = refused;
        if let Some(f) = errors.into_inner().unwrap().into_iter().next() {
            return Err(f);
        }
        // end the shared transaction
        let mut expected = pre.clone();
        if commit {
            match catch(|| wt.commit()) {
                Ok(Ok(())) => {}
                Ok(Err(e)) => return Err(Failure::new("shared-commit", format!("commit of the shared transaction failed: {e:?}"))),
                Err(p) => return Err(Failure::new(format!("panic:{}", normalize_sig(&p)), format!("panic committing the shared transaction: {p}"))),
            }
            for (i, mdl) in models.iter().enumerate() {
                if let Some(tm) = mdl.lock().unwrap().clone() {
                    expected.insert(TABLES[i].0.to_string(), tm);
                }
            }
            out.classes.push("shared transaction committed");
        } else {
            match catch(|| wt.abort()) {
                Ok(Ok(())) => {}
                Ok(Err(e)) => return Err(Failure::new("shared-abort", format!("abort of the shared transaction failed: {e:?}"))),
                Err(p) => return Err(Failure::new(format!("panic:{}", normalize_sig(&p)), format!("panic aborting the shared transaction: {p}"))),
            }
            out.classes.push("shared transaction aborted");
        }
        // each table equals the sequential model of its own stream; nothing else changed
        verify_db_tables(&db, &expected).map_err(|s| {
            let mut f = fail_stop(s);
            f.msg = format!("after the shared transaction ({}): {}", if commit { "commit" } else { "abort" }, f.msg);
            f
        })?;
        // no page shared between tables (the decoder refuses a page reached twice), exact accounting
        account(&db).map_err(|e| Failure::new("page-accounting", format!("after the shared transaction ({}): {e}", if commit { "commit" } else { "abort" })))?;
        // every savepoint handed out must restore the pre-transaction state without leaking
        let sps: Vec<Savepoint> = std::mem::take(&mut *savepoints.lock().unwrap());
        if let Some(sp) = sps.first() {
            let mut rt = db.begin_write().map_err(|e| Failure::new("begin_write", format!("{e:?}")))?;
            match catch(|| rt.restore_savepoint(sp)) {
                Ok(Ok(())) => {}
                Ok(Err(e)) => return Err(Failure::new("shared-savepoint-invalid", format!("a savepoint returned Ok by ephemeral_savepoint() on the shared transaction cannot be restored: {e:?}"))),
                Err(p) => return Err(Failure::new(format!("panic:{}", normalize_sig(&p)), format!("panic restoring a savepoint created on the shared transaction: {p}"))),
            }
            rt.commit().map_err(|e| Failure::new("shared-savepoint-commit", format!("{e:?}")))?;
            verify_db_tables(&db, &pre).map_err(|s| {
                let mut f = fail_stop(s);
                f.msg = format!("after restoring a savepoint created concurrently on the shared transaction: {}", f.msg);
                f
            })?;
            drop(sps);
            account(&db).map_err(|e| Failure::new("page-accounting", format!("after restoring a savepoint created on the shared transaction (pages leaked or freed early): {e}")))?;
            out.classes.push("savepoint from the shared transaction restored and accounted");
        }
        // drain and final accounting
        for _ in 0..4 {
            let t = db.begin_write().map_err(|e| Failure::new("begin_write", format!("{e:?}")))?;
            t.commit().map_err(|e| Failure::new("commit", format!("{e:?}")))?;
        }
        let a = account(&db).map_err(|e| Failure::new("page-accounting", format!("after draining: {e}")))?;
        if a.pending_free != 0 {
            return Err(Failure::new("pending-free-not-drained", format!("{} pages still pending free after 4 empty commits with nothing alive", a.pending_free)));
        }
        // non-trivial: a savepoint call overlapped a first table-open
        let pts = &out.points;
        let overlap = pts.windows(2).any(|w| w[0].0 != w[1].0 && ((w[0].1 == "set_dirty.mid" && w[1].1.starts_with("esp.")) || (w[0].1.starts_with("esp.") && w[1].1 == "set_dirty.mid") || (w[0].1 == "esp.before_lock" && w[1].1 == "step.boundary")));
        if overlap && ok > 0 {
            let mut h = Fnv::new();
            for (w, p) in pts {
                h.write_u64(*w as u64);
                h.write_str(p);
            }
            out.nontrivial = Some(h.finish());
            out.classes.push("savepoint call interleaved with a first table-open");
        }
        if free_run {
            out.classes.push("free-running case");
        }
        Ok(())
    })();
    (out, r)
}

/// Real-parallelism stage: `threads` threads (more than cores, so the OS preempts inside redb)
/// each rewrite their own table of ONE write transaction `ops` times while an ephemeral savepoint
/// is alive (page tracking on). Pages allocated by the transaction are freed and re-allocated
/// across threads all the time. Fixed work, seeded values; the verdict comes from return values,
/// per-table models, restore and the page accounting -- never from timing.
pub fn stress(seed: u64, threads: usize, ops: usize, commit: bool) -> Result<(), Failure> {
    use redb::{ReadableDatabase, ReadableTable, TableDefinition};
    let fail = |sig: &str, m: String| Failure::new(sig, format!("shared-transaction stress (seed {seed}, {threads} threads x {ops} overwrites, {}): {m}", if commit { "commit" } else { "abort" }));
    let cfg = crate::genr::DbCfg { page_size: 512, region_size: 65536, cache_size: 1 << 22 };
    let db = cfg.builder().create_with_backend(crate::backend::RecBackend::new(false)).map_err(|e| Failure::new("create", format!("{e:?}")))?;
    let names: Vec<String> = (0..threads).map(|i| format!("s{i}")).collect();
    let val = |t: usize, j: usize, k: u64| -> Vec<u8> { crate::genr::fill(seed ^ ((t as u64) << 32) ^ ((j as u64) << 8) ^ k, 40 + ((seed as usize % 9 + t * 7 + (j % 1_000_003) * 13 + k as usize * 5) % 9) * 70) };
    const KEYS: u64 = 24;
    {
        let w = db.begin_write().map_err(|e| fail("harness", format!("{e:?}")))?;
        for (t, n) in names.iter().enumerate() {
            let def: TableDefinition<u64, &[u8]> = TableDefinition::new(n);
            let mut tb = w.open_table(def).map_err(|e| fail("harness", format!("{e:?}")))?;
            for k in 0..KEYS {
                tb.insert(k, val(t, usize::MAX, k).as_slice()).map_err(|e| fail("harness", format!("{e:?}")))?;
            }
        }
        w.commit().map_err(|e| fail("harness", format!("{e:?}")))?;
    }
    account(&db).map_err(|e| fail("page-accounting", format!("before the shared transaction: {e}")))?;
    let wt = db.begin_write().map_err(|e| fail("harness", format!("{e:?}")))?;
    let sp = wt.ephemeral_savepoint().map_err(|e| fail("harness", format!("ephemeral_savepoint: {e:?}")))?;
    let errors: Mutex<Vec<Failure>> = Mutex::new(vec![]);
    let finals: Vec<Mutex<Vec<Vec<u8>>>> = (0..threads).map(|_| Mutex::new(vec![])).collect();
    let start = std::sync::Barrier::new(threads);
    std::thread::scope(|s| {
        for t in 0..threads {
            let (wt, names, errors, finals, start, val, fail) = (&wt, &names, &errors, &finals, &start, &val, &fail);
            s.spawn(move || {
                let r = catch(|| -> Result<(), Failure> {
                    let def: TableDefinition<u64, &[u8]> = TableDefinition::new(&names[t]);
                    start.wait();
                    let mut tb = wt.open_table(def).map_err(|e| fail("shared-open", format!("thread {t}: {e:?}")))?;
                    let mut last: Vec<Vec<u8>> = (0..KEYS).map(|k| val(t, usize::MAX, k)).collect();
                    for j in 0..ops {
                        let k = ((j * 7 + t) as u64) % KEYS;
                        let v = val(t, j, k);
                        let old = tb.insert(k, v.as_slice()).map_err(|e| fail("shared-insert", format!("thread {t}: {e:?}")))?;
                        match old {
                            Some(g) if g.value() == last[k as usize].as_slice() => {}
                            Some(_) => return Err(fail("shared-insert-old-value", format!("thread {t}, overwrite {j}: insert returned a previous value that this thread never wrote last for key {k}"))),
                            None => return Err(fail("shared-insert-old-value", format!("thread {t}, overwrite {j}: insert found no previous value for key {k}"))),
                        }
                        last[k as usize] = v;
                    }
                    for k in 0..KEYS {
                        let g = tb.get(k).map_err(|e| fail("shared-get", format!("thread {t}: {e:?}")))?;
                        if g.map(|g| g.value().to_vec()) != Some(last[k as usize].clone()) {
                            return Err(fail("shared-content", format!("thread {t}: key {k} does not hold the last value this thread wrote")));
                        }
                    }
                    *finals[t].lock().unwrap() = last;
                    Ok(())
                });
                match r {
                    Ok(Ok(())) => {}
                    Ok(Err(f)) => errors.lock().unwrap().push(f),
                    Err(p) => errors.lock().unwrap().push(Failure::new(format!("panic:{}", normalize_sig(&p)), format!("shared-transaction stress (seed {seed}): thread {t} panicked: {p}"))),
                }
            });
        }
    });
    {
        let mut e = errors.into_inner().unwrap();
        // a poisoned mutex in the other threads is a consequence; report the root panic first
        e.sort_by_key(|f| f.msg.contains("PoisonError"));
        if let Some(f) = e.into_iter().next() {
            // the handles may panic again while being dropped (poisoned locks): keep the root cause
            let _ = catch(move || {
                drop(sp);
                drop(wt);
            });
            return Err(f);
        }
    }
    let end = catch(|| if commit { wt.commit().map_err(|e| format!("{e:?}")) } else { wt.abort().map_err(|e| format!("{e:?}")) });
    match end {
        Ok(Ok(())) => {}
        Ok(Err(e)) => return Err(fail("shared-end", format!("ending the shared transaction failed: {e}"))),
        Err(p) => return Err(Failure::new(format!("panic:{}", normalize_sig(&p)), format!("shared-transaction stress (seed {seed}): panic ending the transaction: {p}"))),
    }
    let verify = |pre: bool, what: &str| -> Result<(), Failure> {
        let rt = db.begin_read().map_err(|e| fail("harness", format!("{e:?}")))?;
        for (t, n) in names.iter().enumerate() {
            let def: TableDefinition<u64, &[u8]> = TableDefinition::new(n);
            let tb = rt.open_table(def).map_err(|e| fail("shared-content", format!("{what}: table {n}: {e:?}")))?;
            let fin = finals[t].lock().unwrap();
            let mut n_rows = 0;
            for e in tb.iter().map_err(|e| fail("shared-content", format!("{e:?}")))? {
                let (k, v) = e.map_err(|e| fail("shared-content", format!("{e:?}")))?;
                let k = k.value();
                n_rows += 1;
                let want = if pre { val(t, usize::MAX, k) } else { fin.get(k as usize).cloned().unwrap_or_default() };
                if k >= KEYS || v.value() != want.as_slice() {
                    return Err(fail("shared-content", format!("{what}: table {n} key {k} holds a value its thread did not leave there")));
                }
            }
            if n_rows != KEYS {
                return Err(fail("shared-content", format!("{what}: table {n} has {n_rows} rows, expected {KEYS}")));
            }
        }
        Ok(())
    };
    verify(!commit, "after the shared transaction")?;
    account(&db).map_err(|e| fail("page-accounting", format!("after the shared transaction: {e}")))?;
    let mut rt = db.begin_write().map_err(|e| fail("harness", format!("{e:?}")))?;
    match catch(|| rt.restore_savepoint(&sp)) {
        Ok(Ok(())) => {}
        Ok(Err(e)) => return Err(fail("shared-savepoint-invalid", format!("restore failed: {e:?}"))),
        Err(p) => return Err(Failure::new(format!("panic:{}", normalize_sig(&p)), format!("shared-transaction stress (seed {seed}): panic restoring the savepoint: {p}"))),
    }
    rt.commit().map_err(|e| fail("shared-end", format!("{e:?}")))?;
    drop(sp);
    verify(true, "after restoring the savepoint")?;
    account(&db).map_err(|e| fail("page-accounting", format!("after restoring the savepoint: {e}")))?;
    for _ in 0..4 {
        let t = db.begin_write().map_err(|e| fail("harness", format!("{e:?}")))?;
        t.commit().map_err(|e| fail("harness", format!("{e:?}")))?;
    }
    let a = account(&db).map_err(|e| fail("page-accounting", format!("after draining: {e}")))?;
    if a.pending_free != 0 {
        return Err(fail("pending-free-not-drained", format!("{} pages still pending free", a.pending_free)));
    }
    let mut db = db;
    match db.check_integrity() {
        Ok(true) => Ok(()),
        r => Err(fail("integrity-false", format!("check_integrity() returned {r:?}"))),
    }
}

impl Check for C16 {
    fn id(&self) -> &'static str {
        "C16"
    }
    fn rule(&self) -> String {
        "a generated prefix history builds a pre-state; then 2-4 threads each open their own table (tables and multimaps of different types) of ONE shared WriteTransaction and run generated op streams with every return value checked against their own sequential model, while 1-2 further threads call ephemeral_savepoint() and drop earlier Savepoints; the schedule is decoded from the tape (pause points set_dirty.mid, esp.before_lock, esp.registered, savepoint.drop, and call boundaries; a quarter of the cases free-running on real cores); the transaction is then committed (durable or not) or aborted. Oracle: each table equals the sequential model of its own stream and nothing else changed (abort: everything equals the pre-state); the independent decoder finds no page reached from two tables and the C06 accounting is exact; a Savepoint that ephemeral_savepoint() returned Ok is restored in a following transaction: contents equal the pre-transaction state and the accounting is exact afterwards (the race the source comments describe ends in leaked pages, which only accounting sees); pending-free lists drain. Non-trivial: a run in which a savepoint call and a first table-open were adjacent in the schedule and at least one savepoint was handed out; distinct by schedule hash.".into()
    }
    fn assumptions(&self) -> Vec<String> {
        vec!["the relaxed PageTracker flag and the try_lock eviction in the striped write buffer are exercised only by free-running cases; no memory-model exploration".into()]
    }
    fn plan(&self, tier: Tier) -> Plan {
        Plan { cases: tier.pick(1_600, 60_000), max_recs: 90, max_shrink_iters: 300, workers: 8 }
    }
    fn extra(&self, tier: Tier, seed: u64, acc: &mut crate::driver::Acc) -> Vec<(Failure, Option<Tape>)> {
        let rounds = tier.pick(6u64, 60u64);
        let (threads, ops) = (48usize, 1500usize);
        let t0 = std::time::Instant::now();
        let mut out = vec![];
        let mut done = 0;
        for r in 0..rounds {
            match catch(|| stress(seed.wrapping_mul(1000).wrapping_add(r), threads, ops, r % 3 != 2)) {
                Ok(Ok(())) => done += 1,
                Ok(Err(f)) => {
                    out.push((f, None));
                    break;
                }
                Err(p) => {
                    out.push((crate::driver::panic_failure(p, "shared-transaction stress"), None));
                    break;
                }
            }
        }
        acc.extra.insert("parallel_stress".into(), json!({"what": "48 threads on 16 cores each overwrite 24 keys of their own table of one write transaction 1500 times while an ephemeral savepoint is alive; per-thread model, restore, exact accounting, check_integrity", "rounds_completed": done, "threads": threads, "overwrites_per_thread": ops, "wall_s": t0.elapsed().as_secs_f64(), "note": "real parallelism, not a controlled schedule: what is explored depends on the machine"}));
        out
    }
    fn run(&self, tape: &Tape, want_sample: bool) -> Result<CaseOut, Failure> {
        let (o, r) = run_case(tape);
        r?;
        let mut out = CaseOut { evals: 1, ..Default::default() };
        for c in &o.classes {
            out.class(c);
        }
        out.class_n("savepoints handed out on a shared transaction", u64::from(o.sp_ok));
        out.class_n("savepoint calls refused (transaction already dirty)", u64::from(o.sp_refused));
        if let Some(h) = o.nontrivial {
            out.nontrivial.push(h);
        }
        if want_sample {
            out.sample = Some(json!({"schedule(first 50 parks)": o.points.iter().take(50).map(|(w, p)| format!("T{w}@{p}")).collect::<Vec<_>>(), "savepoints_ok": o.sp_ok, "savepoints_refused": o.sp_refused}));
        }
        Ok(out)
    }
    fn render(&self, tape: &Tape) -> Value {
        let (o, r) = run_case(tape);
        json!({"schedule": o.points.iter().map(|(w, p)| format!("T{w}@{p}")).collect::<Vec<_>>(), "classes": o.classes, "result": r.err().map(|f| f.msg)})
    }
}
