//! C09: a multimap table behaves as a map from keys to ordered sets (engine `tableops`/mmops)

use crate::backend::RecBackend;
use crate::driver::{CaseOut, Check, Failure, Plan, Tier};
use crate::genr::DbCfg;
use crate::mmops::*;
use crate::mv::*;
use crate::tableops::{R, stop_to_failure};
use crate::tape::{Fnv, Rec, Tape};
use crate::{io, sensure, sfail};
use redb::{MultimapTableDefinition, ReadableDatabase, ReadableTableMetadata};
use serde_json::{Value, json};

pub struct C09;

pub const FAMS: [(Ty, Ty); 3] = [(Ty::U64, Ty::Bytes), (Ty::Str, Ty::U64), (Ty::U64, Ty::Str)];

#[derive(Clone, Debug)]
pub enum Step {
    Op(MOp),
    Commit,
    CommitReopen,
    Abort,
}

pub struct Case {
    pub cfg: DbCfg,
    pub kty: Ty,
    pub vty: Ty,
    pub universe: usize,
    pub vuniverse: usize,
    pub steps: Vec<Step>,
}

pub fn decode(tape: &Tape) -> Case {
    let c = &tape.cfg;
    let cfg = DbCfg::decode(c[0], c[1], c[2]);
    let (kty, vty) = FAMS[crate::tape::idx8(c[3], FAMS.len())];
    let universe = [6usize, 24, 2, 100][(c[4] % 4) as usize];
    let vuniverse = [40usize, 300, 2000, 12][(c[5] % 4) as usize];
    let mut steps = vec![];
    for rec in &tape.recs {
        let mut r = Rec::new(rec);
        let ctl = r.u8();
        steps.push(match ctl {
            0..=229 => Step::Op(decode_mop(&mut r, kty, vty, &cfg, universe, vuniverse)),
            230..=243 => Step::Commit,
            244..=251 => Step::CommitReopen,
            _ => Step::Abort,
        });
    }
    Case { cfg, kty, vty, universe, vuniverse, steps }
}

fn run_typed<KF: KeyFam, VF: KeyFam>(case: &Case, out: &mut CaseOut) -> R {
    let def: MultimapTableDefinition<KF::T, VF::T> = MultimapTableDefinition::new("m");
    let backend = RecBackend::new(false);
    let mut db = match case.cfg.builder().create_with_backend(backend.clone()) {
        Ok(db) => db,
        Err(e) => sfail!("create", "create failed: {e:?}"),
    };
    let mut committed = MModel::new();
    let mut model = committed.clone();
    let mut st = MStats::default();
    let mut i = 0;
    let mut commits = 0u32;
    let mut reopened = 0u32;
    let mut max_height = 0u32;
    while i < case.steps.len() {
        let txn = match db.begin_write() {
            Ok(t) => t,
            Err(e) => sfail!("begin_write", "begin_write failed: {e:?}"),
        };
        let mut ctl: Option<Step> = None;
        {
            let mut t = match txn.open_multimap_table(def) {
                Ok(t) => t,
                Err(e) => sfail!("open_table", "open_multimap_table failed: {e:?}"),
            };
            while i < case.steps.len() {
                match &case.steps[i] {
                    Step::Op(op) => {
                        mm_apply::<KF, VF>(&mut t, &mut model, op, &mut st, case.cfg.page_size, case.vty)?;
                        i += 1;
                    }
                    c => {
                        ctl = Some(c.clone());
                        i += 1;
                        break;
                    }
                }
            }
            mm_full_compare::<KF, VF, _>(&t, &model)?;
            max_height = max_height.max(io!(t.stats()).tree_height());
        }
        match ctl.unwrap_or(Step::Commit) {
            Step::Abort => {
                io!(txn.abort());
                model = committed.clone();
            }
            s => {
                if let Err(e) = txn.commit() {
                    sfail!("commit", "commit failed: {e:?}");
                }
                commits += 1;
                committed = model.clone();
                if matches!(s, Step::CommitReopen) {
                    drop(db);
                    reopened += 1;
                    db = match case.cfg.builder().create_with_backend(backend.reopen_handle()) {
                        Ok(db) => db,
                        Err(e) => sfail!("reopen", "reopen after clean close failed: {e:?}"),
                    };
                }
            }
        }
        let rt = match db.begin_read() {
            Ok(t) => t,
            Err(e) => sfail!("begin_read", "begin_read failed: {e:?}"),
        };
        match rt.open_multimap_table(def) {
            Ok(t) => mm_full_compare::<KF, VF, _>(&t, &committed)?,
            Err(redb::TableError::TableDoesNotExist(_)) if commits == 0 => {}
            Err(e) => sfail!("ro-open", "open_multimap_table in read transaction failed: {e:?}"),
        }
    }
    drop(db);
    let mut db = match case.cfg.builder().create_with_backend(backend.reopen_handle()) {
        Ok(db) => db,
        Err(e) => sfail!("reopen", "final reopen failed: {e:?}"),
    };
    match db.check_integrity() {
        Ok(true) => {}
        r => sfail!("final-check-integrity", "check_integrity() after the case returned {r:?}"),
    }
    if commits > 0 {
        let rt = match db.begin_read() {
            Ok(t) => t,
            Err(e) => sfail!("begin_read", "begin_read failed: {e:?}"),
        };
        match rt.open_multimap_table(def) {
            Ok(t) => mm_full_compare::<KF, VF, _>(&t, &committed)?,
            Err(e) => sfail!("ro-open", "open_multimap_table after the final reopen failed: {e:?}"),
        }
    }
    drop(db);
    let v = backend.monitor_violations();
    sensure!(v.is_empty(), "backend-contract", "backend contract violated: {:?}", v);

    if st.grew_past_inline >= 1 && st.shrank_below_inline >= 1 && st.max_simultaneous_subtree_keys >= 2 {
        let mut h = Fnv::new();
        h.write_u64(u64::from(st.grew_past_inline));
        h.write_u64(u64::from(st.shrank_below_inline));
        h.write_u64(u64::from(st.ops));
        h.write_u64(st.max_values_per_key as u64);
        h.write_u64(case.cfg.page_size as u64);
        h.write_str(KF::NAME);
        for (k, s) in committed.iter().take(4) {
            k.hash_into(&mut h);
            h.write_u64(s.len() as u64);
        }
        out.nontrivial.push(h.finish());
        out.class("nontrivial(inline->subtree->inline, >=2 subtree keys)");
    }
    if st.grew_past_inline >= 1 {
        out.class("some key grew past the inline limit");
    }
    if st.shrank_below_inline >= 1 {
        out.class("some key shrank below the inline limit");
    }
    if st.max_values_per_key >= 200 {
        out.class("key with >=200 values");
    }
    if st.max_values_per_key >= 1000 {
        out.class("key with >=1000 values");
    }
    if reopened > 0 {
        out.class("with-reopen");
    }
    if max_height >= 3 {
        out.class("height>=3 (outer+subtree)");
    }
    Ok(())
}

impl Check for C09 {
    fn id(&self) -> &'static str {
        "C09"
    }
    fn rule(&self) -> String {
        "tapes decode to multimap op sequences (insert, bulk insert runs, remove, bulk remove, remove_all with partial/backward consumption, get, range both directions, len) over 3 key/value families, key universes 2..100 and value universes 12..2000, value lengths steered around the inline limit p/2; compared with BTreeMap<K,BTreeSet<V>> after every op (return values, MultimapValue::len during consumption) and full scans after every transaction and reopen. Non-trivial: some key crossed the inline limit upwards AND some key crossed it downwards AND >=2 keys were in subtree form at once (by a conservative size estimate); distinct by hash of counters, page size, family, final shape".into()
    }
    fn assumptions(&self) -> Vec<String> {
        vec!["the inline/subtree classification used for the non-triviality rule is a size estimate from the model, not read from the file (C10's decoder checks the actual encoding)".into()]
    }
    fn fuzz_runs(&self) -> u64 {
        400_000
    }
    fn plan(&self, tier: Tier) -> Plan {
        Plan { cases: tier.pick(30_000, 800_000), max_recs: 120, max_shrink_iters: 4000, workers: 16 }
    }
    fn run(&self, tape: &Tape, want_sample: bool) -> Result<CaseOut, Failure> {
        let case = decode(tape);
        let mut out = CaseOut { evals: 1, ..Default::default() };
        let r = match (case.kty, case.vty) {
            (Ty::U64, Ty::Bytes) => run_typed::<FU64, FBytes>(&case, &mut out),
            (Ty::Str, Ty::U64) => run_typed::<FStr, FU64>(&case, &mut out),
            _ => run_typed::<FU64, FStr>(&case, &mut out),
        };
        r.map_err(stop_to_failure)?;
        if want_sample {
            out.sample = Some(self.render(tape));
        }
        Ok(out)
    }
    fn render(&self, tape: &Tape) -> Value {
        let case = decode(tape);
        let steps: Vec<String> = case.steps.iter().take(60).map(|s| format!("{s:?}")).collect();
        json!({
            "config": case.cfg.json(),
            "key_type": case.kty.name(),
            "value_type": case.vty.name(),
            "key_universe": case.universe,
            "value_universe": case.vuniverse,
            "n_steps": case.steps.len(),
            "steps(first 60)": steps,
        })
    }
}
