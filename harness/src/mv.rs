//! Model values (dynamic) and the type families that map them to redb key/value types.

use redb::{Key, Value};
use std::fmt;

#[derive(Clone, PartialEq, Eq, PartialOrd, Ord, Hash)]
pub enum MV {
    Unit,
    U64(u64),
    Str(String),
    Bytes(Vec<u8>),
    TupU32Str(u32, String),
    ArrStr2([String; 2]),
}

impl fmt::Debug for MV {
    fn fmt(&self, f: &mut fmt::Formatter<'_>) -> fmt::Result {
        match self {
            MV::Unit => write!(f, "()"),
            MV::U64(x) => write!(f, "{x}"),
            MV::Str(s) => write!(f, "{s:?}"),
            MV::Bytes(b) => {
                if b.len() <= 12 {
                    write!(f, "b{:?}", b)
                } else {
                    write!(
                        f,
                        "b[len={} {:02x}{:02x}{:02x}{:02x}..{:02x}]",
                        b.len(),
                        b[0],
                        b[1],
                        b[2],
                        b[3],
                        b[b.len() - 1]
                    )
                }
            }
            MV::TupU32Str(a, s) => write!(f, "({a},{s:?})"),
            MV::ArrStr2(a) => write!(f, "[{:?},{:?}]", a[0], a[1]),
        }
    }
}

impl MV {
    pub fn byte_len(&self) -> usize {
        match self {
            MV::Unit => 0,
            MV::U64(_) => 8,
            MV::Str(s) => s.len(),
            MV::Bytes(b) => b.len(),
            MV::TupU32Str(_, s) => 4 + s.len(),
            MV::ArrStr2(a) => 8 + a[0].len() + a[1].len(),
        }
    }
    pub fn hash_into(&self, h: &mut crate::tape::Fnv) {
        match self {
            MV::Unit => h.write(&[0]),
            MV::U64(x) => {
                h.write(&[1]);
                h.write_u64(*x)
            }
            MV::Str(s) => {
                h.write(&[2]);
                h.write_str(s)
            }
            MV::Bytes(b) => {
                h.write(&[3]);
                h.write_u64(b.len() as u64);
                h.write(b)
            }
            MV::TupU32Str(a, s) => {
                h.write(&[4]);
                h.write_u64(u64::from(*a));
                h.write_str(s)
            }
            MV::ArrStr2(a) => {
                h.write(&[5]);
                h.write_str(&a[0]);
                h.write_str(&a[1])
            }
        }
    }
}

/// A family maps MV <-> one redb `Value` type
pub trait ValFam: 'static + Send + Sync {
    type T: Value + 'static;
    const NAME: &'static str;
    fn to<'a>(m: &'a MV) -> <Self::T as Value>::SelfType<'a>;
    fn from<'a>(v: <Self::T as Value>::SelfType<'a>) -> MV;
    /// `Table::insert_reserve` where the value type supports it
    fn insert_reserve<KF: KeyFam>(
        _t: &mut redb::Table<'_, KF::T, Self::T>,
        _k: &MV,
        _v: &MV,
    ) -> Option<Result<(), redb::StorageError>> {
        None
    }
}

pub trait KeyFam: ValFam<T: Key> {}

pub struct FUnit;
pub struct FU64;
pub struct FStr;
pub struct FBytes;
pub struct FTupU32Str;
pub struct FArrStr2;

impl ValFam for FUnit {
    type T = ();
    const NAME: &'static str = "()";
    fn to<'a>(_m: &'a MV) {}
    fn from<'a>(_v: ()) -> MV {
        MV::Unit
    }
}
impl KeyFam for FUnit {}

impl ValFam for FU64 {
    type T = u64;
    const NAME: &'static str = "u64";
    fn to<'a>(m: &'a MV) -> u64 {
        match m {
            MV::U64(x) => *x,
            _ => panic!("harness: MV kind mismatch (u64) {m:?}"),
        }
    }
    fn from<'a>(v: u64) -> MV {
        MV::U64(v)
    }
}
impl KeyFam for FU64 {}

impl ValFam for FStr {
    type T = &'static str;
    const NAME: &'static str = "&str";
    fn to<'a>(m: &'a MV) -> &'a str {
        match m {
            MV::Str(x) => x.as_str(),
            _ => panic!("harness: MV kind mismatch (str) {m:?}"),
        }
    }
    fn from<'a>(v: &'a str) -> MV {
        MV::Str(v.to_string())
    }
}
impl KeyFam for FStr {}

impl ValFam for FBytes {
    type T = &'static [u8];
    const NAME: &'static str = "&[u8]";
    fn to<'a>(m: &'a MV) -> &'a [u8] {
        match m {
            MV::Bytes(x) => x.as_slice(),
            _ => panic!("harness: MV kind mismatch (bytes) {m:?}"),
        }
    }
    fn from<'a>(v: &'a [u8]) -> MV {
        MV::Bytes(v.to_vec())
    }
    fn insert_reserve<KF: KeyFam>(
        t: &mut redb::Table<'_, KF::T, Self::T>,
        k: &MV,
        v: &MV,
    ) -> Option<Result<(), redb::StorageError>> {
        let MV::Bytes(b) = v else { return None };
        Some(
            t.insert_reserve(KF::to(k), b.len())
                .map(|mut g| g.as_mut().copy_from_slice(b)),
        )
    }
}
impl KeyFam for FBytes {}

impl ValFam for FTupU32Str {
    type T = (u32, &'static str);
    const NAME: &'static str = "(u32,&str)";
    fn to<'a>(m: &'a MV) -> (u32, &'a str) {
        match m {
            MV::TupU32Str(a, s) => (*a, s.as_str()),
            _ => panic!("harness: MV kind mismatch (tup) {m:?}"),
        }
    }
    fn from<'a>(v: (u32, &'a str)) -> MV {
        MV::TupU32Str(v.0, v.1.to_string())
    }
}
impl KeyFam for FTupU32Str {}

impl ValFam for FArrStr2 {
    type T = [&'static str; 2];
    const NAME: &'static str = "[&str;2]";
    fn to<'a>(m: &'a MV) -> [&'a str; 2] {
        match m {
            MV::ArrStr2(a) => [a[0].as_str(), a[1].as_str()],
            _ => panic!("harness: MV kind mismatch (arr) {m:?}"),
        }
    }
    fn from<'a>(v: [&'a str; 2]) -> MV {
        MV::ArrStr2([v[0].to_string(), v[1].to_string()])
    }
}
impl KeyFam for FArrStr2 {}

/// runtime tag of a family
#[derive(Copy, Clone, Debug, PartialEq, Eq, PartialOrd, Ord, Hash)]
pub enum Ty {
    Unit,
    U64,
    Str,
    Bytes,
    TupU32Str,
    ArrStr2,
}

impl Ty {
    pub fn name(self) -> &'static str {
        match self {
            Ty::Unit => "()",
            Ty::U64 => "u64",
            Ty::Str => "&str",
            Ty::Bytes => "&[u8]",
            Ty::TupU32Str => "(u32,&str)",
            Ty::ArrStr2 => "[&str;2]",
        }
    }
}
