#![no_main]
//! One libFuzzer target for every tape-driven check: the property id comes from VERIF_FUZZ_ID.
//! The fuzzer's bytes are chunked into a tape (16-byte configuration record + 12-byte operation
//! records) and run through the same `run` entry point as the proptest driver; the semantic
//! oracle is inside the target. A violation writes a replay file and aborts.
use libfuzzer_sys::fuzz_target;
use std::sync::OnceLock;
use vcore::driver::{self, Check, Tier};
use vcore::tape::Tape;

static CHECK: OnceLock<Box<dyn Check>> = OnceLock::new();

fn check() -> &'static dyn Check {
    CHECK
        .get_or_init(|| {
            let id = std::env::var("VERIF_FUZZ_ID").unwrap_or_else(|_| "C04".into());
            driver::install_panic_hook();
            vcore::all_checks().into_iter().find(|c| c.id() == id).expect("unknown VERIF_FUZZ_ID")
        })
        .as_ref()
}

fuzz_target!(|data: &[u8]| {
    let c = check();
    let tape = Tape::from_bytes(data);
    if let Err(f) = driver::run_caught(c, &tape, false) {
        if f.signature.starts_with("harness-panic") {
            eprintln!("HARNESS-ERROR {}", f.msg);
            std::process::exit(2);
        }
        let path = driver::write_replay(c, 0, Tier::Thorough, Some(&tape), &f);
        println!("  {}: {}", f.signature, f.msg);
        println!("VIOLATION property={} replay={}", c.id(), path);
        std::process::abort();
    }
});
