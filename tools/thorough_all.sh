#!/bin/bash
# usage: tools/thorough_all.sh [ids...] : run the thorough tier of the given checks (default: all), one line each
cd "$(dirname "$0")/.."
ids="${@:-C15 C14 C04 C09 C18 C17 C02 C05 C07 C13 C06 C10 C20 C19 C03 C16 C08 C11 C01 C12}"
for c in $ids; do
  t0=$(date +%s)
  out=$(./check $c thorough 2>&1); rc=$?
  t1=$(date +%s)
  echo "$c rc=$rc wall=$((t1-t0))s $(echo "$out" | grep -E "^C[0-9]+ thorough" | cut -c1-160)"
  echo "$out" | grep -E "VIOLATION|KNOWN-FINDING|HARNESS-ERROR|WATCHDOG|BUILD-FAILED" | head -5
  echo "$out" | grep -E "^  [a-z].*:" | head -3 | cut -c1-500
done
