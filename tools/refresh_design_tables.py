#!/usr/bin/env python3
"""Regenerates the quick-tier table (8.4) of DESIGN.md from /verif/evidence/*.json."""
import json, glob, re
p='/verif/DESIGN.md'; s=open(p).read()
ev={}
for f in sorted(glob.glob('/verif/evidence/C*.json')):
    e=json.load(open(f)); ev[e['property_id']]=e
q="| id | random cases | evaluations | distinct non-trivial | wall (16 cores, idle machine) |\n|---|---|---|---|---|\n"
for k in sorted(ev):
    e=ev[k]; c=e['coverage']
    q+=f"| {k} | {c.get('cases')} | {c.get('evaluations')} | {c.get('distinct_nontrivial')} | {e.get('wall_s',0):.0f} s |\n"
a=s.index("| id | random cases | evaluations | distinct non-trivial |")
b=s.index("\nThe thorough tier multiplies the random stage")
s=s[:a]+q+s[b:]
open(p,'w').write(s)
print("8.4 refreshed")
