#!/bin/bash
# usage: confirm_mutant.sh <worktree> ; confirms: patch applies to base, suite passes with it,
# demo fails with it and passes without it. Prints a summary line.
wt="$1"; cd "$wt" || exit 2
git stash list | grep -q . && echo "WARN: stash not empty"
cp out/patch.diff /tmp/confirm_patch.$$ ; cp out/demo.rs /tmp/confirm_demo.$$
git checkout -q -- src 2>/dev/null; rm -f tests/demo_mutant.rs
git apply --check /tmp/confirm_patch.$$ || { echo "RESULT $wt patch-does-not-apply"; exit 1; }
# demo without patch
cp /tmp/confirm_demo.$$ tests/demo_mutant.rs
flags=""; grep -q "redb_verif\|verif_sched\|verif_set" tests/demo_mutant.rs && flags="--cfg redb_verif"
feat=""; grep -q "experimental_cursor\|cursor_mut\|CursorMut" tests/demo_mutant.rs && feat="--features experimental_cursor"
RUSTFLAGS="$flags" cargo test --offline -p redb@4.2.0 $feat --test demo_mutant > out/confirm_demo_without.log 2>&1; d0=$?
git apply /tmp/confirm_patch.$$
RUSTFLAGS="$flags" cargo test --offline -p redb@4.2.0 $feat --test demo_mutant > out/confirm_demo_with.log 2>&1; d1=$?
rm -f tests/demo_mutant.rs
cargo test --offline --no-fail-fast -p redb@4.2.0 > out/confirm_suite_with.log 2>&1; s1=$?
warn=$(grep -c "^warning: unused\|^warning: .*never" out/confirm_suite_with.log)
passed=$(grep -E "^test result" out/confirm_suite_with.log | awk '{p+=$4; f+=$6} END {print p" passed "f" failed"}')
cp /tmp/confirm_demo.$$ tests/demo_mutant.rs
echo "RESULT $wt demo_without_patch_rc=$d0 demo_with_patch_rc=$d1 suite_with_patch_rc=$s1 ($passed) warnings=$warn flags='$flags' features='$feat'"
rm -f /tmp/confirm_patch.$$ /tmp/confirm_demo.$$
