#!/bin/bash
# usage: tools/seeds.sh "<seeds>" [ids...]  -- runs quick checks over several seeds, prints one line each
cd "$(dirname "$0")/.."
seeds="${1:-2 3 4}"; shift
ids="${*:-C01 C02 C03 C04 C05 C06 C07 C08 C09 C10 C11 C12 C13 C14 C15 C16 C17 C18 C19 C20}"
for s in $seeds; do for c in $ids; do
  out=$(VERIF_SEED=$s ./check $c quick 2>&1); rc=$?
  echo "seed=$s $c rc=$rc $(echo "$out" | grep -E "^C[0-9]+ quick" | cut -c1-120) $(echo "$out" | grep -E "VIOLATION|HARNESS|BUILD" | head -2 | tr '\n' ' ')"
done; done
