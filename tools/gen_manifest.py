#!/usr/bin/env python3
"""Regenerates /verif/MANIFEST.json from the table below and validates it against the schema."""
import json, subprocess, sys, os

ROOT = os.path.dirname(os.path.dirname(os.path.abspath(__file__)))

def hook_commits():
    try:
        out = subprocess.check_output(["git", "-C", "/repo", "log", "--format=%H %s"], text=True)
    except Exception:
        return []
    return [l.split()[0] for l in out.splitlines() if "verif hook" in l]

# id -> (level, technique, engine, level text, level note, design ref)
CHECKS = {
 "C04": ("exploration", "model-based property testing: proptest-generated op tapes vs BTreeMap reference model, shrinking to a replay tape",
         "tableops",
         "Seeded random search over operation sequences x 6 key/value families x page/region/cache sizes with byte-exact threshold value lengths; every return value and full forward/backward scans compared with a BTreeMap. A search, not a proof: it establishes that no counterexample exists among the generated cases.",
         "Trusts the harness model (Rust Ord of the key values), the hook setters for page/region size, and that values <= region/4 are representative.",
         "DESIGN.md 4/C04"),
 "C09": ("exploration", "model-based property testing: proptest-generated multimap op tapes vs BTreeMap<K,BTreeSet<V>> reference model, shrinking to a replay tape",
         "tableops",
         "Seeded random search over multimap operation sequences x 3 key/value families x page/region/cache sizes, with value counts and sizes steered across the inline/subtree limit in both directions; every return value, MultimapValue::len during consumption, and full scans compared with the model after every transaction and reopen.",
         "Trusts the harness model; inline/subtree classification for the non-triviality count is a size estimate.",
         "DESIGN.md 4/C09"),
}

ALL = ["C%02d" % i for i in range(1, 21)]
PENDING_REASON = "check not built yet at this commit (planned, see DESIGN.md section 4)"

def main():
    checks = []
    for pid in ALL:
        if pid not in CHECKS:
            continue
        level, technique, engine, text, note, ref = CHECKS[pid]
        checks.append({
            "property_id": pid,
            "quick_cmd": f"./check {pid} quick",
            "thorough_cmd": f"./check {pid} thorough",
            "evidence_file": f"/verif/evidence/{pid}.json",
            "replay_cmd_template": f"./check {pid} quick --replay {{path}}",
            "engine": engine,
            "level_claimed": {"category": level, "text": text, "design_ref": ref},
            "level_note": note,
            "technique": technique,
        })
    m = {
        "version": 1,
        "setup_cmd": "cd /verif/harness && CARGO_NET_OFFLINE=true cargo build --profile verif --bin vcheck && CARGO_NET_OFFLINE=true cargo build --profile release --bin vcheck",
        "hooks": {
            "guard": "--cfg redb_verif",
            "enable": "RUSTFLAGS='--cfg redb_verif' (set in /verif/harness/.cargo/config.toml); the harness depends on /repo by path so every check rebuilds from the current working tree",
            "baseline_off_cmd": "cd /repo && cargo test --workspace --no-fail-fast --offline",
            "source_commits": hook_commits(),
            "add_only": True,
        },
        "engines": [
            {"name": "tableops", "path": "harness/src/tableops.rs", "serves_properties": ["C04", "C09", "C18"], "kind_free_text": "single-table op interpreter + BTreeMap model over generated tapes"},
        ],
        "checks": checks,
        "not_applicable": [{"property_id": p, "reason": PENDING_REASON} for p in ALL if p not in CHECKS],
        "notes": "All checks: ./check <ID> <quick|thorough> [--replay FILE]; VERIF_SEED selects the proptest seed. Exit 2 = inconclusive (build failure/watchdog/harness error), never a verdict.",
    }
    path = os.path.join(ROOT, "MANIFEST.json")
    json.dump(m, open(path, "w"), indent=1)
    try:
        import jsonschema
        jsonschema.validate(m, json.load(open("/root/.vp/MANIFEST.schema.json")))
        print("MANIFEST.json valid;", len(checks), "checks")
    except ImportError:
        print("jsonschema not importable; wrote MANIFEST.json unvalidated")

if __name__ == "__main__":
    main()
