#!/usr/bin/env python3
"""Regenerates /verif/MANIFEST.json from the table below and validates it against the schema."""
import json, subprocess, sys, os

ROOT = os.path.dirname(os.path.dirname(os.path.abspath(__file__)))

def hook_commits():
    try:
        out = subprocess.check_output(["git", "-C", "/repo", "log", "--format=%H %s"], text=True)
    except Exception:
        return []
    return [l.split()[0] for l in out.splitlines() if "verif hook" in l]

# id -> (level, technique, engine, level text, level note, design ref)
CHECKS = {
 "C03": ("exploration", "schedule exploration: generated thread programs and generated schedules over named pause points (controlled preemption) plus free-running stress; verdict = invariants over the recorded call/return history",
         "sched", "Generated 2-4 thread programs and tape-decided schedules at 17 pause points and call boundaries; every observation must be one commit consistent across tables, inside the [returned-before, called-before] window, never aborted/uncommitted data, never moving backwards, writers never overlapping; a directed regression for the begin_read registration race; an enumerated grid of two-thread gate schedules (one thread parked at each pause point x commit kind x durability patterns x cache size x savepoint drop/restore) with the same oracle plus exact page accounting.",
         "Preemption only at named points/call boundaries; no weak-memory exploration; 25 ms timeout is a scheduling hint only.", "DESIGN.md 4/C03"),
 "C04": ("exploration", "model-based property testing: proptest-generated op tapes vs BTreeMap reference model, shrinking to a replay tape",
         "tableops",
         "Seeded random search over operation sequences x 6 key/value families x page/region/cache sizes with byte-exact threshold value lengths; every return value and full forward/backward scans compared with a BTreeMap, several replacements through one AccessGuardMut, final clean close + reopen + check_integrity; thorough tier adds a libFuzzer stage over the same tapes. A search, not a proof: it establishes that no counterexample exists among the generated cases.",
         "Trusts the harness model (Rust Ord of the key values), the hook setters for page/region size, and that values <= region/4 are representative.",
         "DESIGN.md 4/C04"),
 "C09": ("exploration", "model-based property testing: proptest-generated multimap op tapes vs BTreeMap<K,BTreeSet<V>> reference model, shrinking to a replay tape",
         "tableops",
         "Seeded random search over multimap operation sequences x 3 key/value families x page/region/cache sizes, with value counts and sizes steered across the inline/subtree limit in both directions; every return value, MultimapValue::len during consumption, and full scans compared with the model after every transaction and reopen.",
         "Trusts the harness model; inline/subtree classification for the non-triviality count is a size estimate.",
         "DESIGN.md 4/C09"),
 "C06": ("exploration", "stateful model-based property testing with an independent page-accounting oracle (snapshot hook + independent file-format decoder) evaluated after every step",
         "hist+decoder", "Generated histories; after every transaction boundary allocated == reachable + pending-free exactly, each page once, durable and savepoint trees still allocated; final drain within 8 empty commits; check_integrity as a second opinion.",
         "Decoder is a second implementation of the format; hooks H3 are read-only.", "DESIGN.md 4/C06"),
 "C10": ("exploration", "generated histories on a recording backend; every durable image decoded by an independent reader (own XXH3 via xxhash-rust) and compared with the reference model",
         "hist+decoder", "The storage image at the sync that ends every durable commit, compaction and clean close is decoded without redb code: checksums from slot to leaf, key order, routing-key bounds, equal leaf depth, entry counts, no page referenced twice, saved allocator state == reachable + pending free, contents == model commit point.",
         "Two record layouts are documented only in source comments (Appendix C).", "DESIGN.md 4/C10"),
 "C12": ("fault_enumeration", "corruption injection: swept/sampled byte, run, page-swap, god-byte and length alterations of generated closed images; oracle = never Ok(true)/Ok(false) with contents other than one commit point of the reference model",
         "hist+corrupt", "Generated closed images x classified alterations (header sweep, checksummed bytes, slack, free pages, swaps, truncation/extension); after open + check_integrity the served contents must be exactly one commit point whenever Ok(_) is returned; a second check after a repair must be Ok(true). All 320 header bytes are swept in both tiers; a third of the alterations are first met by an open whose repair is aborted from the repair callback. Built without debug assertions, random stage in child processes.",
         "Panics on damaged files are counted as reported abnormally.", "DESIGN.md 4/C12"),
 "C14": ("exploration", "model-based property testing of the buddy allocator and the page manager's region logic against a bitset model; bounded-exhaustive enumeration of all op sequences for small capacities",
         "alloc", "Generated and exhaustively enumerated alloc/alloc_lowest/free/record_alloc/resize/reload sequences against a bitset model with iff-conditions for every return value; page-manager level (allocate/free/region shrink step of commit): no growth while an existing region has a suitable block, shrink only removes free pages, allocator contents == live blocks.",
         "Wrapper hooks H4 expose the crate-private allocator; shrink only by trailing free pages.", "DESIGN.md 4/C14"),
 "C15": ("exploration", "property-based testing of pure functions: generated pairs/triples of values of 33 key types vs Rust Ord, round-trip and separator contract; exhaustive enumeration of small domains; integer pairs include near relatives (1-2 bits of the encoding flipped)",
         "types", "Seeded generation of value triples for every built-in key type (biased to extremes, shared prefixes, UTF-8 boundaries) plus complete enumeration of small domains; compare == Ord, antisymmetry, transitivity, round-trip, separator validity (length, decodes, re-encodes, a <= s < b).",
         "Reference order is Rust's Ord on a mirrored owned value; uuid/chrono types not covered.", "DESIGN.md 4/C15"),
 "C18": ("exploration", "model-based property testing: generated cursor scripts vs sorted-vector + gap-index model",
         "tableops", "Generated cursor scripts (seek with every bound kind, peek/next/prev, inserts in both directions with fitting/unordered/equal keys, long buffered runs, removals, close/drop, commit/reopen, read-only cursors) compared step by step with a sorted vector and a gap index, and by full scans after every close.",
         "Two key families (u64, &str) with byte values.", "DESIGN.md 4/C18"),
 "C19": ("exploration", "differential testing against redb 3.0.0 (cargo cache) over generated histories in both directions, incl. crash images; oracle = reference model read through the other version by iteration and by point lookups through the branch pages; enumerated grid of every non-composite built-in type as key and value in both directions",
         "compat", "Generated histories written by one version and read (and, old->new, extended) by the other over one shared buffer, default geometry; identical tables, contents, persistent savepoints, integrity verdicts; two known findings listed.",
         "Only one old release (3.0.0) is available offline; page size 4096 / default regions only.", "DESIGN.md 4/C19"),
 "C01": ("fault_enumeration", "crash-state enumeration over recorded histories: proptest-generated histories on a recording backend, enumerated/sampled subsets and tears of unsynced writes at every storage operation, nested crashes in recovery; oracle = reference model's commit points",
         "hist+crashsim",
         "Generated histories x crash instants x kept/dropped/torn subsets of the writes since the last sync (all 2^W subsets for small W) x a second crash inside recovery; every recovered image must open and equal exactly one commit point in [last acknowledged durable, last requested]. Enumeration is complete only for the small-W instants; everything else is a seeded sample.",
         "Crash model as docs/design.md assumes it (atomic bytes, durable after fsync, powersafe overwrite); the reference model of commit points; crashes during creation excluded.",
         "DESIGN.md 4/C01"),
 "C02": ("exploration", "stateful model-based property testing: generated histories with held readers/owned iterators vs frozen model snapshots",
         "hist", "Generated single-threaded histories with up to 6 live readers and owned iterators/guards consulted after later commits of every durability, deletes, restores, refused compactions, cache sizes from 0; each must equal its commit point's model snapshot.",
         "Single-threaded schedule; thread interleavings are C03's engine.", "DESIGN.md 4/C02"),
 "C05": ("exploration", "stateful model-based property testing: abandoned transactions (abort/drop/poisoned commit) vs model; exact allocated-page equality; closing drain with exact accounting and empty tracker",
         "hist", "Generated histories in which transactions are abandoned by abort, drop or poisoned commit; contents, catalog, persistent savepoints and allocated page count must equal the state before the transaction began.",
         "Storage-error-inside-operation cases are judged by C08.", "DESIGN.md 4/C05"),
 "C07": ("exploration", "stateful model-based property testing of savepoint create/restore/delete/drop orders vs captured model states; closing drain with exact accounting and empty tracker; crash states of one case in 12 explored by the C01 engine",
         "hist+crashsim", "Generated savepoint-dominated histories with exact refusal variants and captured-state equality after restore+commit, nothing changed after restore+abort, persistent ids across reopen; persistent savepoints across crash states are compared inside C01 (savepoint sets are part of each commit point).",
         "Persistent Savepoint objects are fetched fresh; exact page accounting is C06.", "DESIGN.md 4/C07"),
 "C08": ("fault_enumeration", "fault injection at enumerated/sampled backend call indices (once/permanent) over generated histories, then drop-time crash states and reopen; oracle = reference model + refusal rule",
         "hist+crashsim", "For generated histories every (small histories) or a stratified sample of backend call indices is made to fail once or permanently; no panic, no false success, writes refused after a reported error, reopen lands on a commit point in the window with the failed commit all-or-nothing.",
         "A failing call applies nothing; best-effort write failures may legitimately not surface.", "DESIGN.md 4/C08"),
 "C11": ("fault_enumeration", "crash-state enumeration + clean-close/open paths over generated histories; oracle = check_integrity()==Ok(true) twice, unchanged contents, continuation workload",
         "hist+crashsim", "Every way of stopping a generated history (clean close, crash at enumerated/sampled storage operations) followed by open, check_integrity twice, a continuation workload that writes to every table, and check_integrity again.",
         "Allocation state is observed through check_integrity and safe reuse, not page by page (C06).", "DESIGN.md 4/C11"),
 "C13": ("exploration", "stateful model-based property testing with compaction steps; closed-file length comparison; refusal-reason oracle; crash states inside compact() of one case in 5 explored by the C01 engine; two-thread histories with compact() waiting behind a live write transaction",
         "hist+crashsim", "Generated fragmented histories with compact() calls: contents unchanged, closed file not larger (known finding listed), refusals name a true condition; C01 enumerates crash states in the 'compact' phase.",
         "Size is compared between cleanly closed files (upstream's own notion, DESIGN.md section 7).", "DESIGN.md 4/C13"),
 "C16": ("exploration", "schedule exploration of one shared WriteTransaction: generated per-table op streams on threads plus concurrent savepoint calls under generated schedules, plus a fixed-work real-parallelism stage (48 threads, savepoint alive); oracle = per-table sequential models, independent page accounting, savepoint restore",
         "sched+hist+decoder", "2-4 threads each drive their own table of one WriteTransaction against their own sequential model while other threads create/drop ephemeral savepoints under tape-decided schedules (or free-running); afterwards contents, page disjointness, exact accounting, and restore of every handed-out savepoint are checked.",
         "Preemption only at named points/call boundaries and by the OS in free-running cases.", "DESIGN.md 4/C16"),
 "C17": ("exploration", "stateful model-based property testing of catalog operations with exact error-variant oracle; exhaustive grid of (stored definition, requested definition) pairs incl. user-defined types; delete-releases-storage closing steps with independent page accounting",
         "hist", "Generated catalog histories over 6 names x 8 definitions with deliberately mismatching opens, renames, deletes, held handles, lists, aborts, reopen; compared with a model map including the exact TableError variant.",
         "TypeDefinitionChanged needs two Rust types with one TypeName and is not generated here.", "DESIGN.md 4/C17"),
 "C20": ("exploration", "monitor backend inside every generated history + generated drop-order / failing-open / fault-in-open / failing-close / read-only (also of externally resized files) scenarios",
         "hist+monitor", "The recording backend checks bounds, close-exactly-once and nothing-after-close in every run of every history-based check; C20's own tapes permute drops of Database, write transaction, reader and savepoint, alter or fault the open path, and compare file bytes around a ReadOnlyDatabase.",
         "Thread interleavings of drops only in C03's engine; reads past EOF on deliberately altered files are counted, not judged.", "DESIGN.md 4/C20"),
}

ALL = ["C%02d" % i for i in range(1, 21)]
PENDING_REASON = "check not built yet at this commit (planned, see DESIGN.md section 4)"

def main():
    checks = []
    for pid in ALL:
        if pid not in CHECKS:
            continue
        level, technique, engine, text, note, ref = CHECKS[pid]
        checks.append({
            "property_id": pid,
            "quick_cmd": f"./check {pid} quick",
            "thorough_cmd": f"./check {pid} thorough",
            "evidence_file": f"/verif/evidence/{pid}.json",
            "replay_cmd_template": f"./check {pid} quick --replay {{path}}",
            "engine": engine,
            "level_claimed": {"category": level, "text": text, "design_ref": ref},
            "level_note": note,
            "technique": technique,
        })
    m = {
        "version": 1,
        "setup_cmd": "cd /verif/harness && CARGO_NET_OFFLINE=true cargo build --profile verif --bin vcheck && CARGO_NET_OFFLINE=true cargo build --profile release --bin vcheck",
        "hooks": {
            "guard": "--cfg redb_verif",
            "enable": "RUSTFLAGS='--cfg redb_verif' (set in /verif/harness/.cargo/config.toml); the harness depends on /repo by path so every check rebuilds from the current working tree",
            "baseline_off_cmd": "cd /repo && cargo test --offline --no-fail-fast -p redb@4.2.0 --features experimental_cursor && cargo test --offline --no-fail-fast -p redb-derive -p redb-derive-rename-test",
            "source_commits": hook_commits(),
            "add_only": True,
        },
        "engines": [
            {"name": "tableops", "path": "harness/src/tableops.rs", "serves_properties": ["C04", "C09", "C18"], "kind_free_text": "single-table op interpreter + BTreeMap model over generated tapes"},
            {"name": "decoder", "path": "harness/src/decoder.rs", "serves_properties": ["C06", "C10", "C12"], "kind_free_text": "independent reader of the v3 file format (header, slots, B-tree pages, catalog records, multimap collections, page lists, savepoint records, saved allocator state) with its own XXH3"},
            {"name": "alloc", "path": "harness/src/c14.rs", "serves_properties": ["C14"], "kind_free_text": "bitset model of buddy allocator / page manager regions"},
            {"name": "types", "path": "harness/src/c15.rs", "serves_properties": ["C15"], "kind_free_text": "typed value generators and Ord oracle for 33 key types"},
            {"name": "compat", "path": "harness/src/c19.rs", "serves_properties": ["C19"], "kind_free_text": "two redb versions (path dependency and redb 3.0.0 from the cargo cache) over one shared in-memory buffer"},
            {"name": "sched", "path": "harness/src/sched.rs", "serves_properties": ["C03", "C16"], "kind_free_text": "controller/worker scheduler over the H2 pause points; schedules decoded from the tape"},
            {"name": "hist", "path": "harness/src/hist.rs", "serves_properties": ["C01", "C02", "C05", "C07", "C08", "C11", "C13", "C17", "C20"], "kind_free_text": "history state machine (transactions, savepoints, readers, catalog, reopen, compact) with a reference model of commit points"},
            {"name": "crashsim", "path": "harness/src/crash.rs", "serves_properties": ["C01", "C07", "C08", "C11", "C13", "C20"], "kind_free_text": "recording / fault-injecting / contract-monitoring StorageBackend and crash-state enumerator"},
        ],
        "checks": checks,
        "not_applicable": [{"property_id": p, "reason": PENDING_REASON} for p in ALL if p not in CHECKS],
        "notes": "All checks: ./check <ID> <quick|thorough> [--replay FILE]; VERIF_SEED selects the proptest seed. Exit 2 = inconclusive (build failure/watchdog/harness error), never a verdict.",
    }
    path = os.path.join(ROOT, "MANIFEST.json")
    json.dump(m, open(path, "w"), indent=1)
    try:
        import jsonschema
        jsonschema.validate(m, json.load(open("/root/.vp/MANIFEST.schema.json")))
        print("MANIFEST.json valid;", len(checks), "checks")
    except ImportError:
        print("jsonschema not importable; wrote MANIFEST.json unvalidated")

if __name__ == "__main__":
    main()
