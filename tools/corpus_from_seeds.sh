#!/bin/bash
# Turn the replay tapes harvested while a seeded change was applied into regression tapes:
# each must PASS on the real tree (it is a minimal history that the change broke), then it is
# copied to corpus/<ID>/<seed>.json and replayed first by every run of that check.
cd /verif
git -C /repo diff --quiet || { echo "/repo is dirty"; exit 2; }
for f in seeded/*/replay-C*.json; do
  [ -f "$f" ] || continue
  seed=$(basename $(dirname $f)); id=$(basename $f .json); id=${id#replay-}
  jq -e '.tape != null' $f >/dev/null || { echo "$seed $id: no tape (enumerated stage)"; continue; }
  out=$(./check $id quick --replay /verif/$f 2>&1); rc=$?
  if [ $rc -eq 0 ]; then mkdir -p corpus/$id; jq '{property, tape, signature, origin: "minimal tape that failed with seeded change '$seed' applied; passes on the real tree"}' $f > corpus/$id/$seed.json; echo "$seed $id: added"
  else echo "$seed $id: replay on the real tree rc=$rc (not added): $(echo "$out" | tail -1 | cut -c1-200)"; fi
done
