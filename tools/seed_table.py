#!/usr/bin/env python3
"""Regenerates the seed table of DESIGN.md 8.5 from /verif/seeded/*/meta.json."""
import json, glob, os
p='/verif/DESIGN.md'; s=open(p).read()
hdr="| seed (seeded/<name>/) | caught by (quick tier) | not caught by (also run) | needs / assessment |\n|---|---|---|---|\n"
rows=""
n=caught=0
for d in sorted(glob.glob('/verif/seeded/*/meta.json')):
    m=json.load(open(d)); name=os.path.basename(os.path.dirname(d))
    c=m.get('caught_by') or []; mi=m.get('missed_by') or []
    txt=m.get('assessment') or m.get('needs_to_manifest') or m.get('summary') or ''
    if isinstance(txt,(list,dict)): txt=json.dumps(txt)
    txt=' '.join(str(txt).split()).replace('|','/')
    if len(txt)>150: txt=txt[:150]+'...'
    rows+=f"| {name} | {', '.join(c) if c else '-'} | {', '.join(mi) if mi else '-'} | {txt} |\n"
    if not name.startswith('FIX-'):
        n+=1; caught+= 1 if c else 0
a=s.index("| seed (seeded/<name>/) | caught by (quick tier)")
b=s.index("\n---------", a)
s=s[:a]+hdr+rows+s[b:]
open(p,'w').write(s)
print(f"8.5 table refreshed: {n} seeds, {caught} caught")
