#!/usr/bin/env python3
"""For every recorded seed without harvested replay tapes: apply it to /repo, run the checks that
caught it (quick), copy the replay file of each violation to seeded/<seed>/replay-<ID>.json, undo."""
import json, os, subprocess, glob, re, shutil
for d in sorted(glob.glob('/verif/seeded/*/')):
    if glob.glob(d + 'replay-*.json'):
        continue
    m = json.load(open(d + 'meta.json'))
    checks = m.get('caught_by') or []
    if not checks:
        continue
    res = subprocess.run(['/verif/tools/mutant_check.sh', d + 'patch.diff', 'quick'] + checks, capture_output=True, text=True).stdout
    cur = None
    for l in res.splitlines():
        mm = re.match(r'^(C\d+) rc=(\d+)', l)
        if mm:
            cur = mm.group(1)
        elif cur and l.startswith('VIOLATION') and 'replay=' in l:
            rp = l.split('replay=')[1].strip()
            if os.path.exists(rp):
                shutil.copy(rp, f'{d}replay-{cur}.json')
                print(os.path.basename(d.rstrip('/')), cur, 'harvested')
