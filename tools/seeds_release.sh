#!/bin/bash
# For every recorded seed: run the checks that caught it once more WITHOUT redb's debug
# assertions (VERIF_PROFILE=release), to see whether the harness oracle alone notices.
cd /verif
for d in seeded/*/; do
  n=$(basename $d)
  checks=$(jq -r '.caught_by | join(" ")' $d/meta.json)
  [ -z "$checks" ] && continue
  echo "== $n"
  VERIF_PROFILE=release tools/mutant_check.sh /verif/$d/patch.diff quick $checks 2>&1 | grep -E "^C[0-9]+ rc|^  " | cut -c1-260
done
