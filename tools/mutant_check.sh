#!/bin/bash
# usage: mutant_check.sh <patch.diff> <tier> <ids...> : apply the patch to /repo, run the checks, undo
patch="$1"; tier="$2"; shift 2
cd /verif
git -C /repo diff --quiet || { echo "/repo is dirty"; exit 2; }
git -C /repo apply "$patch" || { echo "patch does not apply"; exit 2; }
# evidence written while /repo is altered must not replace the evidence of the real tree
rm -rf /verif/scratch/evidence.keep; mkdir -p /verif/scratch; cp -r /verif/evidence /verif/scratch/evidence.keep
for c in "$@"; do
  out=$(./check $c $tier 2>&1); rc=$?
  echo "$c rc=$rc $(echo "$out" | grep -E "^C[0-9]+ (quick|thorough)" | cut -c1-110)"
  echo "$out" | grep -E "^  [a-z].*:" | head -2 | cut -c1-400
  echo "$out" | grep -E "^VIOLATION" | head -1
done
git -C /repo checkout -- . 
rm -rf /verif/evidence; mv /verif/scratch/evidence.keep /verif/evidence
git -C /repo diff --quiet && echo "(repo restored)"
