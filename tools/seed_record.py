#!/usr/bin/env python3
"""usage: seed_record.py <seed-name> <worktree> <tier> <check ids...>
Confirms the mutant in its worktree (suite passes with it, demo fails with it / passes without),
runs the given checks against it in /repo (apply, run, undo), and stores
/verif/seeded/<seed-name>/{patch.diff,demo.rs,meta.json}."""
import json, os, subprocess, sys, shutil, re
name, wt, tier = sys.argv[1], sys.argv[2], sys.argv[3]
checks = sys.argv[4:]
dst = f"/verif/seeded/{name}"
os.makedirs(dst, exist_ok=True)
if os.path.exists(f"{wt}/out/confirm.line"):  # confirmed beforehand (tools/confirm_mutant.sh run in parallel)
    conf = open(f"{wt}/out/confirm.line").read().strip().splitlines()
else:
    conf = subprocess.run(["/verif/tools/confirm_mutant.sh", wt], capture_output=True, text=True).stdout.strip().splitlines()
confline = [l for l in conf if l.startswith("RESULT")][-1] if conf else "RESULT none"
ok = "demo_without_patch_rc=0" in confline and "demo_with_patch_rc=101" in confline and "suite_with_patch_rc=0" in confline
shutil.copy(f"{wt}/out/patch.diff", f"{dst}/patch.diff")
shutil.copy(f"{wt}/out/demo.rs", f"{dst}/demo.rs")
agent_meta = {}
try:
    agent_meta = json.load(open(f"{wt}/out/meta.json"))
except Exception as e:
    agent_meta = {"unreadable": str(e)}
res = subprocess.run(["/verif/tools/mutant_check.sh", f"{dst}/patch.diff", tier] + checks, capture_output=True, text=True).stdout
results = {}
cur = None
for l in res.splitlines():
    m = re.match(r"^(C\d+) rc=(\d+) (.*)$", l)
    if m:
        cur = m.group(1)
        results[cur] = {"exit": int(m.group(2)), "summary": m.group(3).strip(), "first_violation": None}
    elif cur and l.startswith("  ") and results[cur]["first_violation"] is None:
        results[cur]["first_violation"] = l.strip()[:500]
    elif cur and l.startswith("VIOLATION") and "replay=" in l:
        rp = l.split("replay=")[1].strip()
        if os.path.exists(rp):
            shutil.copy(rp, f"{dst}/replay-{cur}.json")
            results[cur]["replay"] = f"replay-{cur}.json"
meta = {
    "seed": name,
    "property": agent_meta.get("property", name[:3]),
    "origin": "independent sub-agent given only the property text and a scratch worktree",
    "summary": agent_meta.get("summary"),
    "needs_to_manifest": agent_meta.get("needs_to_manifest"),
    "confirmed_by_me": {"line": confline, "ok": ok, "how": "tools/confirm_mutant.sh in the scratch worktree: patch applies to the base commit; `cargo test --offline --no-fail-fast -p redb@4.2.0` passes with it; the demo test passes without the patch and fails with it"},
    "checks_run_against_it": {"how": f"git -C /repo apply patch.diff; ./check <id> {tier}; git -C /repo checkout -- .", "results": results},
    "caught_by": [c for c, r in results.items() if r["exit"] == 1],
    "missed_by": [c for c, r in results.items() if r["exit"] == 0],
}
json.dump(meta, open(f"{dst}/meta.json", "w"), indent=1)
print(name, "confirmed" if ok else "NOT-CONFIRMED", "| caught by", meta["caught_by"], "| missed by", meta["missed_by"])
for c, r in results.items():
    print("  ", c, r["exit"], (r["first_violation"] or "")[:160])
