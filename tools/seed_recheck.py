#!/usr/bin/env python3
"""usage: seed_recheck.py <seed-name> <tier> <check ids...>: run checks against an already recorded
(and confirmed) seed again after the checks were strengthened; updates meta.json and replay files."""
import json, os, subprocess, sys, shutil, re
name, tier = sys.argv[1], sys.argv[2]
checks = sys.argv[3:]
dst = f"/verif/seeded/{name}"
meta = json.load(open(f"{dst}/meta.json"))
res = subprocess.run(["/verif/tools/mutant_check.sh", f"{dst}/patch.diff", tier] + checks, capture_output=True, text=True).stdout
results = meta["checks_run_against_it"]["results"]
cur = None
for l in res.splitlines():
    m = re.match(r"^(C\d+) rc=(\d+) (.*)$", l)
    if m:
        cur = m.group(1)
        prev = results.get(cur)
        results[cur] = {"exit": int(m.group(2)), "summary": m.group(3).strip(), "first_violation": None}
        if prev and prev.get("exit") == 0 and int(m.group(2)) == 1:
            results[cur]["note"] = "missed by the check as it was when the seed was first run; caught after the check was strengthened (DESIGN.md 8.3)"
    elif cur and l.startswith("  ") and results[cur]["first_violation"] is None:
        results[cur]["first_violation"] = l.strip()[:500]
    elif cur and l.startswith("VIOLATION") and "replay=" in l:
        rp = l.split("replay=")[1].strip()
        if os.path.exists(rp):
            shutil.copy(rp, f"{dst}/replay-{cur}.json")
            results[cur]["replay"] = f"replay-{cur}.json"
meta["caught_by"] = [c for c, r in results.items() if r["exit"] == 1]
meta["missed_by"] = [c for c, r in results.items() if r["exit"] == 0]
json.dump(meta, open(f"{dst}/meta.json", "w"), indent=1)
print(name, "| caught by", meta["caught_by"], "| missed by", meta["missed_by"])
